"""Binding B, recording side: logs one event per top-level library verb call (metadata plane).

Installed from OUTSIDE the repository (no source change): `Pipeable.__call__` - the single choke point through which
`table >> verb(...)` runs - is wrapped when PYDIVERSE_TRANSFORM_VERIF=1.  Usable as a pytest plugin
(`-p harness.tracer` with PYTHONPATH=/verif; one trace per test) or programmatically (`install()`, `start_trace(tid)`).

Event (one JSON object per verb call, at the return of the call, error path included):
  tid, seq, verb, in, in2, out, names, part, hidden, sql=[limit, |group_by|, is_filtered], backend, err,
  args = {cols, new, map, add, how, suffix, rname, ron, n, keep}  (column arguments abstracted to current NAMES)
Nesting rule: a library verb is logged, everything it pipes internally is suppressed; a user-defined @verb is not
logged itself, the library verbs it calls are."""
from __future__ import annotations

import json
import os

GUARD = "PYDIVERSE_TRANSFORM_VERIF"
LIB_MODULES = ("pydiverse.transform._internal.pipe.verbs", "pydiverse.transform._internal.pipe.cache")

_state = dict(installed=False, depth=0, events=[], tid="", seq=0, ids={}, out=None, keep=[])


def _tid_of(t):
    """small integer identity of a Table object within the current trace (0 = not a table)"""
    from pydiverse.transform._internal.pipe.table import Table

    if not isinstance(t, Table):
        return 0
    key = id(t)
    if key not in _state["ids"]:
        _state["ids"][key] = len(_state["ids"]) + 1
        _state["keep"].append(t)        # keep alive so that id() is not reused within a trace
        _emit(dict(verb="source", **{"in": 0}, in2=0, out=_state["ids"][key], err="", args=_args(), **_meta(t)))
    return _state["ids"][key]


def _family(dt):
    """static dtype -> family token (sizes and const-ness dropped)"""
    from pydiverse.transform._internal.tree import types

    try:
        dt = types.without_const(dt)
        if dt.is_int():
            return "Int"
        if dt.is_float():
            return "Float"
        n = type(dt).__name__
        return {"Enum": "String", "NullType": "Null"}.get(n, n)
    except Exception:  # noqa: BLE001
        return "?"


def _pl_family(d):
    """polars dtype of an exported frame -> the same family tokens"""
    s = str(d)
    if s.startswith(("Int", "UInt")):
        return "Int"
    if s.startswith("Float"):
        return "Float"
    if s == "Boolean":
        return "Bool"
    if s.startswith(("String", "Utf8", "Enum", "Categorical")):
        return "String"
    for k in ("Datetime", "Date", "Duration", "Time", "Decimal", "List", "Null"):
        if s.startswith(k):
            return k
    return s


def _meta(t):
    c = t._cache
    names = list(c.name_to_uuid.keys())
    part = [c.uuid_to_name.get(u, "?hidden") for u in c.partition_by]
    hidden = sorted({col.name for u, col in c.cols.items() if u not in c.uuid_to_name})
    return dict(names=names, part=part, hidden=hidden, sql=[-1 if c.limit is None else int(c.limit), len(c.group_by), bool(c.is_filtered)],
                dts=[_family(c.cols[u].dtype()) for u in c.name_to_uuid.values()],
                backend=c.backend.backend_name, ph=any(u not in c.uuid_to_name for u in c.partition_by),
                marker=any(type(nd).__name__ == "SubqueryMarker" for nd in t._ast.iter_subtree_preorder()))


def _args(**kw):
    a = dict(cols=[], new=[], map=[], add=False, how="", suffix="", rname="", ron=[], n=0, keep=False, lnames=[], rnames=[], u64=False)
    a.update(kw)
    return a


def _emit(ev):
    _state["seq"] += 1
    ev["tid"] = _state["tid"]
    ev["seq"] = _state["seq"]
    _state["events"].append(ev)


def _name_of(table, col):
    """current name of a column argument (Col / ColName / str) in `table`, or '?...' if it cannot be resolved"""
    from pydiverse.transform._internal.tree.col_expr import Col, ColName

    if isinstance(col, str):
        return col
    if isinstance(col, ColName):
        return col.name
    if isinstance(col, Col):
        return table._cache.uuid_to_name.get(col._uuid, "?" + col.name)
    return "?expr"


def _abstract(fn_name, table, args, kwargs):
    """verb arguments -> names (metadata plane)"""
    from pydiverse.transform._internal.pipe.table import Table
    from pydiverse.transform._internal.tree.col_expr import Col

    try:
        if fn_name in ("select", "drop"):
            return _args(cols=[_name_of(table, c) for c in args])
        if fn_name == "group_by":
            return _args(cols=[_name_of(table, c) for c in args], add=bool(kwargs.get("add", False)))
        if fn_name in ("mutate", "summarize"):
            # does an expression read an unsigned 64-bit column (no signed integer type holds its range: known finding F34)
            u64 = False
            for v in kwargs.values():
                if hasattr(v, "iter_subtree_preorder"):
                    for nd in v.iter_subtree_preorder():
                        if isinstance(nd, Col) and type(nd.dtype()).__name__ == "UInt64":
                            u64 = True
            return _args(new=list(kwargs.keys()), u64=u64)
        if fn_name == "rename":
            nm = args[0] if args else kwargs.get("name_map", {})
            return _args(map=[[_name_of(table, k), v] for k, v in nm.items()])
        if fn_name == "slice_head":
            return _args(n=int(args[0]) if args else int(kwargs.get("n", 0)))
        if fn_name == "alias":
            return _args(keep=bool(kwargs.get("keep_col_refs", False)))
        if fn_name == "collect":
            return _args(keep=bool(kwargs.get("keep_col_refs", True)))
        if fn_name in ("join", "inner_join", "left_join", "full_join", "cross_join"):
            right = args[0] if args else kwargs.get("right")
            on = (args[1] if len(args) > 1 else kwargs.get("on")) if fn_name != "cross_join" else []
            how = {"inner_join": "inner", "left_join": "left", "full_join": "full", "cross_join": "inner"}.get(fn_name) or (
                args[2] if len(args) > 2 else kwargs.get("how", ""))
            ron = []
            if isinstance(right, Table):
                items = on if isinstance(on, list) else [on]
                ruuids = set(right._cache.uuid_to_name)
                for it in items:
                    if isinstance(it, str):
                        ron.append(it)
                    elif hasattr(it, "iter_subtree_preorder"):
                        for nd in it.iter_subtree_preorder():
                            if isinstance(nd, Col) and nd._uuid in ruuids:
                                ron.append(right._cache.uuid_to_name[nd._uuid])
                            elif type(nd).__name__ == "ColName" and nd.name in right._cache.name_to_uuid and nd.name not in table._cache.name_to_uuid:
                                ron.append(nd.name)
            return _args(how=str(how), suffix=kwargs.get("suffix") or "", rname=(right._ast.name or "") if isinstance(right, Table) else "",
                         ron=sorted(set(ron)), lnames=list(table._cache.name_to_uuid.keys()),
                         rnames=list(right._cache.name_to_uuid.keys()) if isinstance(right, Table) else [])
    except Exception:  # noqa: BLE001
        pass
    return _args()


def _wrapped_call(orig):
    def call(self, arg):
        from pydiverse.transform._internal.pipe.pipeable import Pipeable
        from pydiverse.transform._internal.pipe.table import Table

        for c in self.calls:
            fn = getattr(c, "func", None)
            mod = getattr(fn, "__module__", "")
            name = getattr(fn, "__name__", "?")
            is_lib = mod in LIB_MODULES and isinstance(arg, Table)
            if name == "_union_verb":
                name = "union"
            if not is_lib or _state["depth"] > 0:
                res = c(arg)
                if isinstance(res, Pipeable):
                    res = res(arg)
                arg = res
                continue
            fargs, fkw = tuple(getattr(c, "args", ())), dict(getattr(c, "keywords", {}) or {})
            tin = _tid_of(arg)
            right = fargs[0] if (name.endswith("join") or name == "union") and fargs else None
            tin2 = _tid_of(right) if right is not None else 0
            a = _abstract(name, arg, fargs, fkw)
            err = ""
            res = None
            _state["depth"] += 1
            try:
                res = c(arg)
                if isinstance(res, Pipeable):
                    res = res(arg)
                return_val = res
            except BaseException as e:  # noqa: BLE001
                err = type(e).__name__
                raise
            finally:
                _state["depth"] -= 1
                ev = dict(verb=name, in2=tin2, err=err, args=a)
                ev["in"] = tin
                if err == "" and isinstance(res, Table):
                    if id(res) not in _state["ids"]:
                        _state["ids"][id(res)] = len(_state["ids"]) + 1
                        _state["keep"].append(res)
                    ev["out"] = _state["ids"][id(res)]
                    ev.update(_meta(res))
                else:
                    ev["out"] = 0
                    ev.update(dict(names=[], part=[], hidden=[], sql=[-1, 0, False], backend=arg._cache.backend.backend_name, ph=False, marker=False, dts=[]))
                    if err == "" and name == "export":
                        cols = None
                        if hasattr(res, "collect_schema"):
                            cols = list(res.collect_schema().names())
                        elif hasattr(res, "columns"):
                            cols = [str(x) for x in list(res.columns)]
                        elif isinstance(res, dict):
                            cols = list(res.keys())
                        if cols is not None:
                            ev["names"] = cols
                            ev["verb"] = "export_cols"
                            try:
                                sch = res.collect_schema() if hasattr(res, "collect_schema") else None
                                if sch is not None and type(res).__module__.startswith("polars"):
                                    ev["dts"] = [_pl_family(sch[n]) for n in cols]
                            except Exception:  # noqa: BLE001
                                pass
                    elif err == "" and name == "columns":
                        ev["names"] = list(res)
                        ev["verb"] = "export_cols"
                _emit(ev)
            arg = return_val
        return arg

    return call


def install():
    if _state["installed"] or os.environ.get(GUARD) != "1":
        return False
    from pydiverse.transform._internal.pipe.pipeable import Pipeable

    Pipeable.__call__ = _wrapped_call(Pipeable.__call__)
    _state["installed"] = True
    return True


def start_trace(tid: str):
    _state.update(tid=tid, seq=0, ids={}, keep=[], depth=0)


def drain():
    ev, _state["events"] = _state["events"], []
    return ev


# ---------------------------------------------------------------------------------------------
# pytest plugin

def pytest_configure(config):
    install()


def pytest_runtest_setup(item):
    start_trace(item.nodeid)


def pytest_sessionfinish(session, exitstatus):
    out = os.environ.get("VERIF_TRACE_OUT")
    if out and _state["installed"]:
        with open(out, "w") as f:
            for ev in _state["events"]:
                f.write(json.dumps(ev) + "\n")
