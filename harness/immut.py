"""C10: structural fingerprints of tables, caches and expression objects (what must not change)."""
from __future__ import annotations


def fp_expr(e):
    from pydiverse.transform._internal.tree import col_expr as CE

    if isinstance(e, list | tuple):
        return ("list", tuple(fp_expr(x) for x in e))
    if isinstance(e, CE.Order):
        return ("Order", fp_expr(e.order_by), e.descending, e.nulls_last)
    if isinstance(e, CE.Col):
        return ("Col", e.name, str(e._uuid), id(e._ast))
    if isinstance(e, CE.ColName):
        return ("ColName", e.name)
    if isinstance(e, CE.LiteralCol):
        return ("Lit", repr(e.val))
    if isinstance(e, CE.ColFn):
        return ("Fn", e.op.name, tuple(fp_expr(a) for a in e.args),
                tuple(sorted((k, tuple(fp_expr(v) for v in vs)) for k, vs in e.context_kwargs.items())))
    if isinstance(e, CE.CaseExpr):
        return ("Case", tuple((fp_expr(c), fp_expr(v)) for c, v in e.cases),
                None if e.default_val is None else fp_expr(e.default_val))
    if isinstance(e, CE.Cast):
        return ("Cast", fp_expr(e.val), repr(e.target_type), e.strict)
    if isinstance(e, CE.ColExpr):
        return (type(e).__name__, tuple(fp_expr(c) for c in e.iter_children()))
    return ("py", repr(e))


def fp_ast(nd, memo=None):
    from pydiverse.transform._internal.backend.table_impl import TableImpl
    from pydiverse.transform._internal.tree import verbs as V

    if memo is None:
        memo = {}
    if id(nd) in memo:
        return memo[id(nd)]
    if isinstance(nd, TableImpl):
        r = ("Src", id(nd), nd.name, tuple((n, str(c._uuid), str(getattr(c, "_dtype", None))) for n, c in nd.cols.items()))
    else:
        own = [type(nd).__name__, nd.name]
        if isinstance(nd, V.Select):
            own.append(tuple(fp_expr(c) for c in nd.select))
        elif isinstance(nd, V.Rename):
            own.append(tuple(nd.name_map.items()))
        elif isinstance(nd, (V.Mutate, V.Summarize)):
            own += [tuple(nd.names), tuple(fp_expr(v) for v in nd.values), tuple(str(u) for u in nd.uuids)]
        elif isinstance(nd, V.Filter):
            own.append(tuple(fp_expr(p) for p in nd.predicates))
        elif isinstance(nd, V.Arrange):
            own.append(tuple(fp_expr(o) for o in nd.order_by))
        elif isinstance(nd, V.SliceHead):
            own += [nd.n, nd.offset]
        elif isinstance(nd, V.GroupBy):
            own += [tuple(fp_expr(c) for c in nd.group_by), nd.add]
        elif isinstance(nd, V.Join):
            own += [fp_expr(nd.on), nd.how, nd.validate, fp_ast(nd.right, memo)]
        elif isinstance(nd, V.Union):
            own += [nd.distinct, fp_ast(nd.right, memo)]
        elif isinstance(nd, V.Alias):
            own.append(None if nd.uuid_map is None else tuple((str(a), str(b)) for a, b in nd.uuid_map.items()))
        r = (tuple(own), fp_ast(nd.child, memo))
    memo[id(nd)] = r
    return r


def fp_cache(c):
    return (tuple((n, str(u)) for n, u in c.name_to_uuid.items()), tuple((str(u), n) for u, n in c.uuid_to_name.items()),
            tuple(str(u) for u in c.partition_by), tuple(sorted((str(u), str(getattr(col, "_dtype", None))) for u, col in c.cols.items())),   # the columns WITH their types
            c.limit, tuple(sorted(str(u) for u in c.group_by)), c.is_filtered,
            tuple(sorted(id(n) for n in c.derived_from)))


def fp_table(t):
    return (fp_ast(t._ast), fp_cache(t._cache))
