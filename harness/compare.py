"""Projection of real tables to the specification's observation language, and the
comparison rules of DESIGN.md section 4 (sequence of tie classes vs. bag)."""
from __future__ import annotations

import datetime
import math
from collections import Counter
from fractions import Fraction


class _Undef:
    def __repr__(self):
        return "UNDEF"


UNDEF = _Undef()


class _Any:
    def __repr__(self):
        return "ANY"


ANY = _Any()     # some non-null value the specification does not compute (transcendental functions)


def spec_value(v):
    """JSON value emitted by TLC -> python value (None, bool, int, Fraction, str)."""
    if v == "NULL":
        return None
    if v == "UNDEF":
        return UNDEF
    if v == "ANY":
        return ANY
    if isinstance(v, list):      # text as a sequence of code points
        return "".join(chr(c) for c in v)
    if isinstance(v, dict) and set(v) == {"n", "d"}:
        return Fraction(v["n"], v["d"])
    if isinstance(v, dict) and set(v) == {"dd", "ss", "us"}:
        return datetime.timedelta(days=v["dd"], seconds=v["ss"], microseconds=v["us"])
    if isinstance(v, dict) and set(v) == {"y", "m", "d"}:
        return datetime.date(v["y"], v["m"], v["d"])
    if isinstance(v, dict) and "us" in v:
        return datetime.datetime(v["y"], v["m"], v["d"], v["H"], v["M"], v["S"], v["us"])
    return v


def canon(v, ty=None):
    """Canonical hashable form of a cell for multiset comparison.  `ty` is the specification's
    type of the column; it licenses the numeric-family coercions of section 4 (SQLite returns
    0/1 for computed booleans and decimals / floats for some integer results)."""
    if v is None:
        return None
    if isinstance(v, float) and math.isnan(v):
        return ("nan",)
    if ty == "bool":
        if isinstance(v, (int, float)) and not isinstance(v, bool) and v in (0, 1):
            return ("b", bool(v))
        if isinstance(v, bool):
            return ("b", v)
        return ("?", repr(v))
    if ty == "int":
        if isinstance(v, bool):
            return ("?", repr(v))
        if isinstance(v, int):
            return ("n", v)
        if isinstance(v, float) and v == int(v):
            return ("n", int(v))
        try:  # decimal.Decimal
            f = Fraction(v)
            if f.denominator == 1:
                return ("n", int(f))
        except (TypeError, ValueError):
            pass
        return ("?", repr(v))
    if ty == "float":
        if isinstance(v, bool):
            return ("?", repr(v))
        try:
            return ("f", round(float(v), 9) + 0.0)
        except (TypeError, ValueError):
            return ("?", repr(v))
    if ty == "str":
        return ("s", v) if isinstance(v, str) else ("?", repr(v))
    if ty in ("date", "datetime"):
        if isinstance(v, datetime.datetime):
            return ("d", v.isoformat()) if ty == "datetime" else ("?", repr(v))
        if isinstance(v, datetime.date):
            return ("d", v.isoformat()) if ty == "date" else ("?", repr(v))
        return ("?", repr(v))
    if ty == "duration":
        return ("td", v.days, v.seconds, v.microseconds) if isinstance(v, datetime.timedelta) else ("?", repr(v))
    # untyped: structural
    if isinstance(v, datetime.timedelta):
        return ("td", v.days, v.seconds, v.microseconds)
    if isinstance(v, bool):
        return ("b", v)
    if isinstance(v, int):
        return ("n", v)
    if isinstance(v, (float, Fraction)):
        return ("f", round(float(v), 9) + 0.0)
    if isinstance(v, str):
        return ("s", v)
    if isinstance(v, (datetime.date, datetime.datetime)):
        return ("d", v.isoformat())
    try:
        return ("f", round(float(v), 9) + 0.0)
    except (TypeError, ValueError):
        return ("?", repr(v))


def canon_rows(rows, tys):
    return [tuple(canon(v, tys[i] if tys else None) for i, v in enumerate(r)) for r in rows]


def spec_rows(obs):
    return [[spec_value(v) for v in r] for r in obs["rows"]]


def classes_chunks(cls):
    """[1,1,2,3,3,3] -> [(0,2),(2,3),(3,6)]"""
    out = []
    i = 0
    n = len(cls)
    while i < n:
        j = i
        while j < n and cls[j] == cls[i]:
            j += 1
        out.append((i, j))
        i = j
    return out


def compare_rows(expected, actual, tys, cls):
    """expected / actual: lists of rows (python values).  cls: class vector over the expected
    sequence, or None for bag comparison.  Returns None if they agree, else (clause, detail)."""
    e = canon_rows(expected, tys)
    a = canon_rows(actual, tys)
    if len(e) != len(a):
        return ("rows", f"row count {len(a)} != expected {len(e)}")
    if Counter(e) != Counter(a):
        missing = list((Counter(e) - Counter(a)).elements())[:3]
        extra = list((Counter(a) - Counter(e)).elements())[:3]
        return ("rows", f"missing {missing} unexpected {extra}")
    if cls is None:
        return None
    for (lo, hi) in classes_chunks(cls):
        if Counter(e[lo:hi]) != Counter(a[lo:hi]):
            return ("order", f"rows {lo}..{hi - 1}: expected {e[lo:hi]} got {a[lo:hi]}")
    return None


def has_undef(rows):
    return any(v is UNDEF or v is ANY for r in rows for v in r)


def cell_eq(ev, av, ty):
    """cell comparison of the aligned (operator table) mode: floats with relative tolerance 1e-9"""
    if ev is ANY:
        return av is not None and not (isinstance(av, float) and math.isnan(av))
    if ty == "float" and ev is not None and av is not None:
        try:
            a, b = float(ev), float(av)
        except (TypeError, ValueError):
            return False
        return abs(a - b) <= 1e-9 * max(1.0, abs(a), abs(b))
    return canon(ev, ty) == canon(av, ty)


def compare_aligned(expected, actual, tys, key):
    """Operator tables: rows are matched by the unique key column `key`; cells the specification leaves
    UNDEF (outside the backend-independent fragment) are not compared."""
    if len(expected) != len(actual):
        return ("rows", f"row count {len(actual)} != expected {len(expected)}")
    amap = {r[key]: r for r in actual}
    if len(amap) != len(actual):
        return ("rows", "key column is not unique in the exported frame")
    bad = []
    for er in expected:
        ar = amap.get(er[key])
        if ar is None:
            return ("rows", f"row with key {er[key]} missing")
        for i, (ev, av) in enumerate(zip(er, ar)):
            if ev is UNDEF:
                continue
            if not cell_eq(ev, av, tys[i] if tys else None):
                bad.append((er[key], i, ev, av, [x for j, x in enumerate(er) if j != i and x is not UNDEF][:6]))
    if bad:
        return ("rows", "cells differ (key, column index, expected, got, row): " + "; ".join(map(str, bad[:5])) + f" ... {len(bad)} cell(s)")
    return None


def frame_rows(df):
    return [list(r) for r in df.rows()]


PL_FAMILY = {
    "int": ("Int", "UInt"),
    "float": ("Float", "Decimal"),
    "bool": ("Boolean",),
    "str": ("String", "Utf8", "Enum", "Categorical"),
}


def pl_family(dtype) -> str:
    s = str(dtype)
    for fam, prefixes in PL_FAMILY.items():
        if any(s.startswith(p) for p in prefixes):
            return fam
    if s.startswith("Null"):
        return "null"
    if s.startswith("Duration"):
        return "duration"
    if s.startswith("Datetime"):
        return "datetime"
    if s.startswith("Date"):
        return "date"
    return s


def pdt_family(dtype) -> str:
    from pydiverse.transform._internal.tree import types

    d = types.without_const(dtype)
    if d.is_int():
        return "int"
    if d.is_float():
        return "float"
    n = type(d).__name__
    return {"Bool": "bool", "String": "str", "NullType": "null", "Enum": "str", "Date": "date",
            "Datetime": "datetime", "Duration": "duration"}.get(n, n)
