"""Regenerates MANIFEST.json from the registry (python -m harness.manifest_gen)."""
import json
import os

from .registry import CHECKS, MANIFEST_TEXT

VERIF = os.path.dirname(os.path.dirname(os.path.abspath(__file__)))
ALL = [f"C{i:02d}" for i in range(1, 21)]


def main():
    checks = []
    for pid in ALL:
        if pid not in CHECKS or pid not in MANIFEST_TEXT:
            continue
        t = MANIFEST_TEXT[pid]
        checks.append(dict(
            property_id=pid,
            quick_cmd=f"./check {pid} --tier quick",
            thorough_cmd=f"./check {pid} --tier thorough",
            evidence_file=f"/verif/evidence/{pid}.json",
            replay_cmd_template=f"./check {pid} --replay {{path}}",
            engine=t.get("engine", "pipeline"),
            level_claimed=dict(category=CHECKS[pid]["level"], text=t["text"], design_ref=t.get("design_ref", "DESIGN.md section 6")),
            level_note=t["note"],
            technique=t["technique"],
        ))
    na = [dict(property_id=pid, reason=MANIFEST_TEXT.get("_na", {}).get(pid, "check not built yet in this round; see DESIGN.md section 10 (build order)"))
          for pid in ALL if pid not in CHECKS or pid not in MANIFEST_TEXT]
    m = dict(
        version=1,
        setup_cmd="./setup.sh",
        hooks=dict(
            guard="PYDIVERSE_TRANSFORM_VERIF",
            enable="no build step: checks import /repo/src directly; tracing wraps Table.__rshift__ from outside when PYDIVERSE_TRANSFORM_VERIF=1 (set by ./check)",
            baseline_off_cmd="cd /repo && /venv/bin/python -m pytest -ra -q -p no:cacheprovider --timeout=900 --continue-on-collection-errors",
            source_commits=[],
            add_only=True,
        ),
        engines=[
            dict(name="pipeline", path="spec/Pipeline.tla", serves_properties=[c["property_id"] for c in checks if c["engine"] == "pipeline"],
                 kind_free_text="TLA+ state machine of table values and verbs; TLC generates behaviours that are replayed on Polars and SQLite (binding A) and validates recorded traces (binding B)"),
            dict(name="functions", path="spec/Functions1.tla", serves_properties=[c["property_id"] for c in checks if c["engine"] == "functions"],
                 kind_free_text="TLC as exhaustive table generator for pure functions (operators, casts), replayed value by value"),
            dict(name="types", path="spec/Resolve.tla", serves_properties=[c["property_id"] for c in checks if c["engine"] == "types"],
                 kind_free_text="order-free definition of overload resolution over a catalogue extracted from the code; code outcomes validated by TLC"),
        ],
        checks=checks,
        notes="All checks: ./check <ID> [--tier quick|thorough] [--replay PATH]; honours VERIF_SEED, VERIF_TIER. Known findings: known_findings.json.",
        not_applicable=na,
    )
    with open(os.path.join(VERIF, "MANIFEST.json"), "w") as f:
        json.dump(m, f, indent=1)
    print("checks:", [c["property_id"] for c in checks], "not_applicable:", [n["property_id"] for n in na])


if __name__ == "__main__":
    main()
