"""Offline engines for the SQL dialects that have no driver in this sandbox (compile only: build_query)."""
from __future__ import annotations

import sys
import types


def install_stubs():
    if "psycopg2" not in sys.modules:
        m = types.ModuleType("psycopg2")
        m.__version__ = "2.9.9"
        m.paramstyle = "pyformat"
        m.apilevel = "2.0"
        m.threadsafety = 2
        ext = types.ModuleType("psycopg2.extensions")
        extras = types.ModuleType("psycopg2.extras")
        m.extensions, m.extras = ext, extras
        sys.modules["psycopg2"] = m
        sys.modules["psycopg2.extensions"] = ext
        sys.modules["psycopg2.extras"] = extras
    if "pyodbc" not in sys.modules:
        m = types.ModuleType("pyodbc")
        m.version = "5.0.0"
        m.paramstyle = "qmark"
        m.apilevel = "2.0"
        m.threadsafety = 1
        m.Cursor = type("Cursor", (), {"nextset": lambda self: None})
        m.SQL_VARCHAR, m.SQL_WVARCHAR, m.SQL_DECIMAL = 12, -9, 3
        m.Error = type("Error", (Exception,), {})
        sys.modules["pyodbc"] = m


SQA_TYPES = None


def engines():
    import sqlalchemy as sqa

    install_stubs()
    return {
        "postgres": sqa.create_engine("postgresql+psycopg2://u:p@localhost/db"),
        "mssql": sqa.create_engine("mssql+pyodbc://u:p@localhost/db?driver=x"),
    }


def sqa_table(name, cols):
    import sqlalchemy as sqa

    ty = {"int32": sqa.Integer, "int8": sqa.SmallInteger, "uint16": sqa.Integer, "uint64": sqa.BigInteger, "float32": sqa.Float, "int": sqa.BigInteger, "bool": sqa.Boolean, "str": sqa.String, "float": sqa.Double, "date": sqa.Date,
          "datetime": sqa.DateTime}
    return sqa.Table(name, sqa.MetaData(), *[sqa.Column(n, ty[t]) for n, t in cols])
