"""Phases other than behaviour generation + replay."""
from __future__ import annotations

import os

from . import tlc

LAWS = ["DivModReconstruct", "ModSignOfDividend", "ModSmallerThanDivisor", "DivTruncSymmetric", "DivByZeroUndefined",
        "ArithPropagatesNull", "CompareNullPropagates", "CompareTrichotomy", "KleeneDeMorgan", "KleeneCommutative",
        "KleeneAbsorbing", "KleeneNullRows", "KleeneAssociative", "RatNormal", "TruncTowardZero", "FloorCeil",
        "RatOrderTotal", "IntDivIsRat", "NullPlacement", "BeforeIrreflexive", "BeforeAsymmetric", "DescReverses"]


def phase_laws(ctx, phase):
    """TLC checks the algebraic laws of the value language (guards the oracle)."""
    d = tlc.prepare(f"{ctx.prop}-laws-{os.getpid()}", ctx.seed)
    base = phase.get("base", "Functions1")
    laws = phase.get("laws", LAWS)
    with open(os.path.join(d, "Run.tla"), "w") as f:
        f.write(f"---- MODULE Run ----\nEXTENDS {base}\n====\n")
    with open(os.path.join(d, "Run.cfg"), "w") as f:
        f.write("CONSTANTS\n  NULL = NULL\n  UNDEF = UNDEF\nINIT Init\nNEXT Next\nCHECK_DEADLOCK FALSE\n" +
                "".join(f"INVARIANT {x}\n" for x in laws))
    res = tlc.run(d, workers=4, timeout=phase.get("timeout", 300))
    if res["violations"] or res["timed_out"]:
        raise tlc.TlcError("a law of the value language is violated (the oracle itself is wrong):\n" + "\n".join(res.get("errctx", []) + res["log"][-20:]))
    ctx.tlc_states += res["states"]
    ctx.tlc_distinct += res["distinct"]
    ctx.tlc_runs.append(dict(profile="laws:" + base, states=res["states"], distinct=res["distinct"], laws=len(laws), wall=round(res["wall"], 1), mode="bfs"))
    ctx.extra.setdefault("laws_checked", []).extend(laws)
    return d
