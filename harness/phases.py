"""Phases other than behaviour generation + replay."""
from __future__ import annotations

import json
import os

from . import tlc

LAWS = ["DivModReconstruct", "ModSignOfDividend", "ModSmallerThanDivisor", "DivTruncSymmetric", "DivByZeroUndefined",
        "ArithPropagatesNull", "CompareNullPropagates", "CompareTrichotomy", "KleeneDeMorgan", "KleeneCommutative",
        "KleeneAbsorbing", "KleeneNullRows", "KleeneAssociative", "RatNormal", "TruncTowardZero", "FloorCeil",
        "RatOrderTotal", "IntDivIsRat", "NullPlacement", "BeforeIrreflexive", "BeforeAsymmetric", "DescReverses"]


def phase_laws(ctx, phase):
    """TLC checks the algebraic laws of the value language (guards the oracle)."""
    d = tlc.prepare(f"{ctx.prop}-laws-{os.getpid()}", ctx.seed)
    base = phase.get("base", "Functions1")
    laws = phase.get("laws", LAWS)
    with open(os.path.join(d, "Run.tla"), "w") as f:
        f.write(f"---- MODULE Run ----\nEXTENDS {base}\n====\n")
    with open(os.path.join(d, "Run.cfg"), "w") as f:
        f.write("CONSTANTS\n  NULL = NULL\n  UNDEF = UNDEF\n  ANY = ANY\nINIT Init\nNEXT Next\nCHECK_DEADLOCK FALSE\n" +
                "".join(f"INVARIANT {x}\n" for x in laws))
    res = tlc.run(d, workers=4, timeout=phase.get("timeout", 300))
    if res["violations"] or res["timed_out"]:
        raise tlc.TlcError("a law of the value language is violated (the oracle itself is wrong):\n" + "\n".join(res.get("errctx", []) + res["log"][-20:]))
    ctx.tlc_states += res["states"]
    ctx.tlc_distinct += res["distinct"]
    ctx.tlc_runs.append(dict(profile="laws:" + base, states=res["states"], distinct=res["distinct"], laws=len(laws), wall=round(res["wall"], 1), mode="bfs"))
    ctx.extra.setdefault("laws_checked", []).extend(laws)
    return d


# ------------------------------------------------------------------------------------------
# C13: overload resolution (engine T)

def _code_outcomes(max_arity, reverse_sigs=False, only=None):
    from . import catalog as C

    if reverse_sigs:
        from pydiverse.transform._internal.ops.signature import SignatureTrie

        for _, o in C.operators():
            o.trie = SignatureTrie()
            for sig in reversed(o.signatures):
                o.trie.insert(sig.types, sig.return_type, sig.is_vararg)
    return C.enumerate_code(max_arity, only)


def _colfn_outcomes(max_arity, only=None):
    """ColFn construction outcome for every tuple (the user-visible side of type checking)."""
    import itertools
    import uuid as _uuid

    from pydiverse.transform._internal.ops.op import Ftype
    from pydiverse.transform._internal.tree import types
    from pydiverse.transform._internal.tree.col_expr import Col, ColFn, LiteralCol

    from . import catalog as C

    uni = C.all_types()

    def mk(t):
        if types.is_const(t):
            return LiteralCol(None, dtype=t.base)
        return Col("x", None, _uuid.uuid1(), t, Ftype.ELEMENT_WISE)

    out = {}
    for n, o in C.operators():
        if only and n not in only:
            continue
        ar = set()
        for s in o.signatures:
            k = len(s.types)
            ar |= set(range(max(1, k - 1), max_arity + 1)) if s.is_vararg else {k}
        for k in sorted(a for a in ar if a <= max_arity):
            for tup in itertools.product(uni, repeat=k):
                try:
                    e = ColFn(o, *[mk(t) for t in tup])
                    r = ("match", C.tok(types.without_const(e.dtype())), bool(types.is_const(e.dtype())))
                except Exception as ex:  # noqa: BLE001
                    r = ("error", type(ex).__name__)
                out[(n, tuple(C.tok(t) for t in tup))] = r
    return out


def _subproc_outcomes(args):
    """run in a fresh interpreter with another PYTHONHASHSEED / reversed declaration order"""
    max_arity, hashseed, reverse = args[:3]
    only = args[3] if len(args) > 3 else None
    import json
    import subprocess
    import sys

    code = ("import sys, json; sys.path.insert(0, %r); from harness import phases as P; "
            "o = P._code_outcomes(%d, %r, %r); print(json.dumps([[k[0], list(k[1]), list(v)] for k, v in o.items()]))"
            % (os.path.dirname(os.path.dirname(os.path.abspath(__file__))), max_arity, reverse, only))
    env = dict(os.environ, PYTHONHASHSEED=str(hashseed))
    p = subprocess.run([sys.executable, "-c", code], env=env, capture_output=True, text=True, timeout=3600)
    if p.returncode != 0:
        raise RuntimeError("outcome enumeration failed: " + p.stderr[-500:])
    return {(a, tuple(b)): tuple(c) for a, b, c in json.loads(p.stdout)}


def phase_resolve(ctx, phase):
    import json

    from . import catalog as C

    max_arity = phase.get("max_arity", 2)
    only = phase.get("ops")         # restrict to these operators (a deeper arity for the few operators whose signatures need it)
    d = tlc.prepare(f"{ctx.prop}-resolve-{os.getpid()}", ctx.seed)
    text, meta = C.catalog_module()
    with open(os.path.join(d, "Catalog.tla"), "w") as f:
        f.write(text)
    nops = len(meta["ops"])
    with open(os.path.join(d, "Run.tla"), "w") as f:
        f.write("---- MODULE Run ----\nEXTENDS MC_Resolve\nOnlyOpsDef == {" + ", ".join(tlc.tla_lit(x) for x in (only or [])) + "}\n====\n")
    with open(os.path.join(d, "Run.cfg"), "w") as f:
        f.write(f"CONSTANTS\n MaxArity = {max_arity}\n OpLo = 1\n OpHi = {nops}\n OnlyOps <- OnlyOpsDef\nINIT Init\nNEXT Next\nCHECK_DEADLOCK FALSE\n")
    spec = {}

    def on_json(o):
        spec[(o["op"], tuple(o["args"]))] = o

    res = tlc.run(d, timeout=phase.get("timeout", 3000), on_json=on_json)
    if res["timed_out"]:
        ctx.exhaustive = False
    ctx.tlc_states += res["states"]
    ctx.tlc_distinct += res["distinct"]
    ctx.tlc_runs.append(dict(profile=f"resolve(arity<={max_arity})", states=res["states"], distinct=res["distinct"],
                             behaviours=len(spec), wall=round(res["wall"], 1), mode="bfs"))
    code = _code_outcomes(max_arity, only=only)
    colfn = _colfn_outcomes(max_arity if only else min(max_arity, 2), only)
    ctx.behaviours += len(spec)
    ctx.replay_stats["steps_new"] = ctx.replay_stats.get("steps_new", 0) + len(code)
    # non-trivial: the tuple is accepted or ambiguous (a rejection of an unrelated type tuple is the trivial case)
    ctx.replay_stats["nontrivial"] = ctx.replay_stats.get("nontrivial", 0) + sum(1 for v in spec.values() if v["o"] != "reject")
    ctx.replay_stats["colfn_constructions"] = len(colfn)

    def fail(clause, key, detail, exc=None):
        ctx.failures.append(dict(clause=clause, backend="code", step=0, detail=detail, exc=exc, tainted=False, src=[], srcidx=0,
                                 moves=[dict(v="resolve", op=key[0], args=list(key[1]))], heap_obs=[],
                                 beh=dict(op=key[0], args=list(key[1]), specification=spec.get(key), code=code.get(key))))

    if set(spec) != set(code):
        raise RuntimeError(f"domain mismatch between TLC ({len(spec)}) and code enumeration ({len(code)})")
    for key, c in code.items():
        s = spec[key]
        base = lambda t: t.replace("c:", "")  # noqa: E731
        if c[0] == "error" and c[1] != "DataTypeError":
            fail("resolve-internal", key, f"type checking raised {c[1]} (specification: {s['o']})", exc=c[1])
        elif s["o"] == "match":
            if c[0] != "match":
                fail("resolve", key, f"specification selects {s['ret']}, code: {c}")
            elif base(c[1]) != base(s["ret"]):
                fail("resolve", key, f"return type {c[1]}, specification {s['ret']}")
        elif s["o"] == "reject":
            if c[0] == "match":
                fail("resolve", key, f"specification rejects, code returns {c[1]}")
        elif s["o"] == "ambiguous":
            if c[0] == "match":
                fail("resolve-order", key, f"several overloads at minimal cost, code picks {c[1]} (order dependent)")
        # uniformity clauses evaluated by TLC on the catalogue
        if not s.get("su", True):
            fail("sized-uniform", key, "a sized type is not accepted (or gives another family) where the generic type is")
        if not s.get("ca", True):
            fail("const-accepted", key, "a constant argument is rejected where a column argument is accepted")
    # ColFn construction must agree with return_type
    for key, r in colfn.items():
        c = code[key]
        if r[0] == "error" and r[1] not in ("DataTypeError",):
            if r[1] == "TypeError" and key[0] in ("ascending", "descending", "nulls_first", "nulls_last"):
                continue
            fail("resolve-internal", key, f"ColFn construction raised {r[1]}", exc=r[1])
        elif (r[0] == "match") != (c[0] == "match"):
            fail("resolve", key, f"ColFn construction {r} but return_type {c}")
        elif r[0] == "match" and spec[key]["o"] == "match" and r[2] != spec[key]["rc"]:
            fail("const-result", key, f"the expression type is {'const' if r[2] else 'not const'}, specification: {'const' if spec[key]['rc'] else 'not const'} "
                                      "(only an element-wise operator applied to constants yields a constant)")
    # independence of declaration order and hash order
    import concurrent.futures as cf

    variants = [(max_arity, 1, False, only), (max_arity, 2, True, only), (max_arity, 3, True, only)]
    with cf.ThreadPoolExecutor(3) as ex:
        for (ma, hs, rev, _o), other in zip(variants, ex.map(_subproc_outcomes, variants)):
            diff = [k for k in code if other.get(k) != code[k]]
            ctx.extra.setdefault("order_variants", []).append(dict(hashseed=hs, reversed_declaration=rev, differing=len(diff)))
            for k in diff[:50]:
                fail("resolve-order", k, f"outcome {code[k]} changes to {other.get(k)} with PYTHONHASHSEED={hs}, reversed declaration order={rev}")
    ctx.samples.extend([dict(op=k[0], args=list(k[1]), specification=spec[k]["o"] + ":" + spec[k]["ret"], code=list(code[k]))
                        for k in list(code)[:: max(1, len(code) // 3)][:3]])
    return d


# ------------------------------------------------------------------------------------------
# C17: acceptance matrix of cast

def phase_castmatrix(ctx, phase):
    import uuid as _uuid

    from . import catalog as C

    d = tlc.prepare(f"{ctx.prop}-castmatrix-{os.getpid()}", ctx.seed)
    text, _ = C.catalog_module()
    with open(os.path.join(d, "Catalog.tla"), "w") as f:
        f.write(text)
    with open(os.path.join(d, "Run.tla"), "w") as f:
        f.write("---- MODULE Run ----\nEXTENDS MC_CastMatrix\n====\n")
    with open(os.path.join(d, "Run.cfg"), "w") as f:
        f.write("INIT Init\nNEXT Next\nCHECK_DEADLOCK FALSE\n")
    spec = {}
    res = tlc.run(d, timeout=600, on_json=lambda o: spec.__setitem__((o["src"], o["tgt"]), o["o"]))
    ctx.tlc_states += res["states"]
    ctx.tlc_distinct += res["distinct"]
    ctx.tlc_runs.append(dict(profile="castmatrix", states=res["states"], distinct=res["distinct"], behaviours=len(spec),
                             wall=round(res["wall"], 1), mode="bfs"))
    from pydiverse.transform._internal.ops.op import Ftype
    from pydiverse.transform._internal.tree import types
    from pydiverse.transform._internal.tree.col_expr import Cast, Col, LiteralCol

    uni = C.all_types()
    bytok = {C.tok(t): t for t in uni}

    def fail(clause, key, detail, exc=None):
        ctx.failures.append(dict(clause=clause, backend="code", step=0, detail=detail, exc=exc, tainted=False, src=[], srcidx=0,
                                 moves=[dict(v="resolve", op="cast", args=list(key))], heap_obs=[],
                                 beh=dict(cast=list(key), specification=spec.get(key))))

    n = 0
    for (s, t), want in spec.items():
        st, tt = bytok[s], bytok[t]
        arg = LiteralCol(None, dtype=st.base) if types.is_const(st) else Col("x", None, _uuid.uuid1(), st, Ftype.ELEMENT_WISE)
        try:
            Cast(arg, tt)
            got = "ok"
        except Exception as e:  # noqa: BLE001
            got = "reject" if type(e).__name__ == "DataTypeError" else "error:" + type(e).__name__
        n += 1
        if got.startswith("error"):
            fail("cast-internal", (s, t), f"Cast construction raised {got[6:]}", exc=got[6:])
        elif want != "unspec" and got != want:
            fail("cast-accept", (s, t), f"specification: {want}, Cast construction: {got}")
    # the same through a lambda column (type check deferred until the verb resolves C.x)
    import datetime

    import polars as pl

    import pydiverse.transform as pdt
    from pydiverse.transform.extended import C as CC
    from pydiverse.transform.extended import mutate

    df = pl.DataFrame({"i": [1], "f": [1.5], "s": ["1"], "b": [True], "d": [datetime.date(2020, 1, 2)],
                       "t": [datetime.datetime(2020, 1, 2, 3, 4, 5)]})
    tbl = pdt.Table(df)
    colty = {"i": "Int64", "f": "Float64", "s": "String", "b": "Bool", "d": "Date", "t": "Datetime"}
    for cn, s in colty.items():
        for t in [x for x in bytok if not x.startswith("c:")]:
            want = spec[(s, t)]
            try:
                tbl >> mutate(y=CC[cn].cast(bytok[t]))
                got = "ok"
            except Exception as e:  # noqa: BLE001
                got = "reject" if type(e).__name__ == "DataTypeError" else "error:" + type(e).__name__
            n += 1
            if got.startswith("error"):
                fail("cast-internal", (s, t), f"mutate(y=C.{cn}.cast({t})) raised {got[6:]}", exc=got[6:])
            elif want != "unspec" and got != want:
                fail("cast-accept", (s, t), f"specification: {want}, mutate(y=C.{cn}.cast({t})): {got} (deferred type check)")
    ctx.behaviours += len(spec)
    ctx.replay_stats["steps_new"] = ctx.replay_stats.get("steps_new", 0) + n
    ctx.replay_stats["nontrivial"] = ctx.replay_stats.get("nontrivial", 0) + sum(1 for v in spec.values() if v != "unspec")
    return d


# ------------------------------------------------------------------------------------------
# C19: every accepted operator overload has an implementation or NotSupportedError on every backend

def phase_impls(ctx, phase):
    from pydiverse.transform._internal.backend.mssql import MsSqlImpl
    from pydiverse.transform._internal.backend.polars import PolarsImpl
    from pydiverse.transform._internal.backend.postgres import PostgresImpl
    from pydiverse.transform._internal.backend.sqlite import SqliteImpl

    from . import catalog as C
    from . import dialects as D

    D.install_stubs()
    code = C.enumerate_code(phase.get("max_arity", 2))
    uni = {C.tok(t): t for t in C.all_types()}
    ops = dict(C.operators())
    impls = {"polars": PolarsImpl, "sqlite": SqliteImpl, "postgres": PostgresImpl, "mssql": MsSqlImpl}
    n = 0
    unsupported = 0
    called = 0
    for (opn, args), out in code.items():
        if out[0] != "match":
            continue
        sig = tuple(uni[a] for a in args)
        for bk, impl in impls.items():
            n += 1
            try:
                f = impl.get_impl(ops[opn], sig)
                if not callable(f):
                    raise TypeError(f"get_impl returned {f!r}")
            except Exception as e:  # noqa: BLE001
                if type(e).__name__ == "NotSupportedError":
                    unsupported += 1
                    continue
                ctx.failures.append(dict(clause="impl-internal", backend=bk, step=0, exc=type(e).__name__, tainted=False, src=[], srcidx=0,
                                         detail=f"get_impl({opn}, {args}) on {bk} raised {type(e).__name__}: {e}",
                                         moves=[dict(v="resolve", op=opn, args=list(args))], heap_obs=[], beh=dict(op=opn, args=list(args), backend=bk)))
            # an implementation that forgets its `return` compiles to NULL: call it on typed SQL columns (python values for the
            # parameters declared constant); only a None result is judged - an exception here may be due to the synthetic arguments
            if bk != "polars":
                import datetime as _dt
                import functools

                import sqlalchemy as sqa
                from pydiverse.transform._internal.tree import types as _types

                lit = {"Int": 1, "Float": 1.5, "Decimal": 1.5, "String": "a", "Bool": True, "Date": _dt.date(2020, 1, 2), "Datetime": _dt.datetime(2020, 1, 2),
                       "Time": _dt.time(1, 2), "Duration": _dt.timedelta(1), "NullType": None}
                try:
                    params = ops[opn].trie.best_match(sig)[0]
                    argv = []
                    for j, a in enumerate(sig):
                        pj = params[j] if j < len(params) else params[-1]
                        fam = C.family(a) if hasattr(C, "family") else None
                        if _types.is_const(pj):
                            argv.append(lit.get(type(_types.without_const(a)).__name__.rstrip("0123456789").replace("UInt", "Int"), 1))
                        else:
                            argv.append(sqa.column(f"x{j}", impl.sqa_type(_types.without_const(a))))
                    r = functools.partial(f, _Impl=impl)(*argv)
                except Exception:  # noqa: BLE001
                    continue
                called += 1
                if r is None:
                    ctx.failures.append(dict(clause="impl-internal", backend=bk, step=0, exc=None, tainted=False, src=[], srcidx=0,
                                             detail=f"the implementation of {opn}{args} on {bk} returned None (compiles to NULL)",
                                             moves=[dict(v="resolve", op=opn, args=list(args))], heap_obs=[], beh=dict(op=opn, args=list(args), backend=bk)))
    ctx.replay_stats["impl_calls"] = called
    ctx.replay_stats["steps_new"] = ctx.replay_stats.get("steps_new", 0) + n
    ctx.replay_stats["nontrivial"] = ctx.replay_stats.get("nontrivial", 0) + n
    ctx.replay_stats["impl_lookups"] = n
    ctx.replay_stats["impl_not_supported"] = unsupported
    return None


# ------------------------------------------------------------------------------------------
# Binding B: trace validation on the metadata plane (TraceMeta.tla / CacheModel.tla)

def _record_repo_tests(out_path):
    """the repository's own tests, run with tracing on (outcomes unchanged; every verb call logged)"""
    import subprocess
    import sys

    env = dict(os.environ, PYDIVERSE_TRANSFORM_VERIF="1", VERIF_TRACE_OUT=out_path)
    env["PYTHONPATH"] = tlc.VERIF + (os.pathsep + env["PYTHONPATH"] if env.get("PYTHONPATH") else "")
    repo = os.environ.get("VERIF_REPO_SRC", "/repo/src").rsplit("/src", 1)[0]
    p = subprocess.run([sys.executable, "-m", "pytest", "-q", "-p", "no:cacheprovider", "-p", "harness.tracer", "--timeout=900",
                        "tests/test_polars_table.py", "tests/test_core.py"], cwd=repo, env=env, capture_output=True, text=True, timeout=1800)
    if not os.path.exists(out_path):
        raise RuntimeError("recording the repository's tests produced no trace file:\n" + p.stdout[-800:] + p.stderr[-800:])
    return p.stdout.strip().splitlines()[-1] if p.stdout.strip() else ""


def _record_replay(args):
    """worker: replay behaviours one by one with the tracer on; one trace per behaviour and backend-independent order"""
    path, seed, backends, limit = args
    import json

    os.environ["PYDIVERSE_TRANSFORM_VERIF"] = "1"
    from . import tracer
    from .replay import Replayer

    tracer.install()
    traces = []
    n = 0
    with open(path) as f:
        for line in f:
            if n >= limit:
                break
            beh = json.loads(line)
            n += 1
            for bk in backends:
                rp = Replayer(seed, backends=(bk,))
                tracer.start_trace(f"{os.path.basename(path)}#{n}/{bk}")
                tracer.drain()
                rp.replay(beh)
                ev = tracer.drain()
                if ev:
                    traces.append(ev)
    return traces


def phase_tracemeta(ctx, phase):
    import json

    from .check import beh_key
    from .registry import PROFILES

    d = tlc.prepare(f"{ctx.prop}-tracemeta-{os.getpid()}", ctx.seed)
    traces = []
    notes = []
    if phase.get("repo_tests", True):
        raw = os.path.join(d, "repo_tests.ndjson")
        summary = _record_repo_tests(raw)
        by = {}
        with open(raw) as f:
            for line in f:
                e = json.loads(line)
                by.setdefault(e["tid"], []).append(e)
        traces += list(by.values())
        notes.append(f"repository tests with tracing on: {summary}; {len(by)} traces")
    # behaviours generated by TLC, replayed with the tracer on
    for pname, limit in phase.get("profiles", []):
        prof = dict(PROFILES[pname])
        defs = dict(prof["defs"])
        defs["Emit"] = True
        dd = tlc.prepare(f"{ctx.prop}-tm-{pname}-{os.getpid()}", ctx.seed)
        tlc.write_model(dd, prof["base"], defs, prof["overrides"])
        behs = []
        res = tlc.run(dd, timeout=600, on_json=behs.append)
        ctx.tlc_states += res["states"]
        ctx.tlc_distinct += res["distinct"]
        behs.sort(key=beh_key)
        step = max(1, len(behs) // limit)
        pick = behs[::step][:limit]
        files = []
        nw = 8
        for w in range(nw):
            fp = os.path.join(dd, f"tm_{w}.ndjson")
            with open(fp, "w") as f:
                for b in pick[w::nw]:
                    f.write(json.dumps(b) + "\n")
            files.append(fp)
        futs = [ctx.get_pool().submit(_record_replay, (fp, ctx.seed, ("polars", "sqlite"), 10 ** 9)) for fp in files]
        for fu in futs:
            traces += fu.result()
        tlc.cleanup(dd)
        notes.append(f"profile {pname}: {len(pick)} behaviours replayed with tracing on both back ends")
    # canary: a corrupted copy of the first non-trivial trace must be rejected at the corrupted step
    canary_idx = None
    for t in traces:
        k = next((i for i, e in enumerate(t) if e["verb"] in ("mutate", "select", "rename") and e["err"] == "" and e["names"]), None)
        if k is not None:
            bad = json.loads(json.dumps(t))
            bad[k]["names"] = list(reversed(bad[k]["names"])) + ["corrupted"]
            for e in bad:
                e["tid"] = "CANARY"
            traces.append(bad)
            canary_idx = (len(traces), k + 1)
            break
    tf = os.path.join(d, "traces.json")
    with open(tf, "w") as f:
        json.dump(traces, f)
    with open(os.path.join(d, "Run.tla"), "w") as f:
        f.write("---- MODULE Run ----\nEXTENDS TraceMeta\n====\n")
    with open(os.path.join(d, "Run.cfg"), "w") as f:
        f.write("INIT Init\nNEXT Next\nCHECK_DEADLOCK FALSE\n")
    verdicts = {}
    res = tlc.run(d, workers=1, timeout=phase.get("timeout", 1800), on_json=lambda o: verdicts.setdefault(o["tid"], o),
                  extra_env={"TRACE_FILE": tf})
    ctx.tlc_states += res["states"]
    ctx.tlc_distinct += res["distinct"]
    nev = sum(len(t) for t in traces)
    ctx.tlc_runs.append(dict(profile="tracemeta", states=res["states"], distinct=res["distinct"], traces=len(traces), events=nev,
                             wall=round(res["wall"], 1), mode="trace-validation"))
    if len(verdicts) != len(traces):
        raise tlc.TlcError(f"trace validation gave {len(verdicts)} verdicts for {len(traces)} traces (a trace was silently truncated)\n"
                           + "\n".join(res["log"][-20:]))
    if canary_idx is not None:
        v = verdicts[canary_idx[0]]
        if v["verdict"] == "ok" or v["step"] != canary_idx[1]:
            raise tlc.TlcError(f"binding demonstration failed: the corrupted trace was not rejected at step {canary_idx[1]}: {v}")
        ctx.extra["binding_demo"] = f"corrupted copy of a recorded trace rejected with verdict '{v['verdict']}' at step {v['step']}"
    for i, t in enumerate(traces, 1):
        if canary_idx is not None and i == canary_idx[0]:
            continue
        v = verdicts[i]
        if v["verdict"] != "ok":
            e = t[v["step"] - 1]
            ctx.failures.append(dict(clause="trace-" + v["verdict"], backend=e.get("backend", "?"), step=v["step"], tainted=False, src=[], srcidx=0,
                                     detail=(f"trace {e['tid']} step {v['step']} verb {e['verb']}: columns {e['names']} have type families {e.get('dts')}; "
                                             f"the frame rule / the static types require {v.get('expected')} ('?' = defined by the verb)"
                                             if v["verdict"] in ("dtype", "export-dtype") else
                                             f"trace {e['tid']} step {v['step']} verb {e['verb']}: logged names {e['names']} part {e['part']} sql {e['sql']}; "
                                             f"CacheModel expects names {v.get('expected')}"),
                                     moves=[dict(v=x["verb"], i=x["in"], **({"u64": True} if x.get("args", {}).get("u64") else {})) for x in t[: v["step"]] if x["verb"] != "source"],
                                     heap_obs=[],
                                     beh=dict(trace=t[: v["step"]], verdict=v)))
    ctx.behaviours += len(traces) - (1 if canary_idx else 0)
    ctx.replay_stats["trace_events_validated"] = ctx.replay_stats.get("trace_events_validated", 0) + nev
    ctx.replay_stats["steps_new"] = ctx.replay_stats.get("steps_new", 0) + nev
    ctx.replay_stats["nontrivial"] = ctx.replay_stats.get("nontrivial", 0) + sum(
        1 for t in traces for e in t if e["verb"] not in ("source", "name", "show", "build_query", "ast_repr") and e["err"] == "")
    ctx.notes += notes
    if len(ctx.samples) < 3 and traces:
        ctx.samples.append(dict(trace_of=traces[0][0]["tid"], events=[dict(verb=e["verb"], args={k: v for k, v in e["args"].items() if v}, names=e["names"]) for e in traces[0][:4]]))
    return d


# ------------------------------------------------------------------------------------------
# C08 design level: FlatCorrect on SqlFlat.tla; every counterexample is replayed on the real code

def _cross_replay(seed, srcname, moves):
    """runs the moves on Polars and SQLite; returns None if they agree (or SQL refuses with SubqueryError), else a description"""
    from . import compare as CMP
    from .replay import Replayer, exc_class

    rp = Replayer(seed)
    R = rp.R
    si = rp.name_to_src[srcname]
    res = {}
    for bk in ("polars", "sqlite"):
        t = rp.B.table(bk, si)
        colmap = {S_col_id(si, ci): t[n] for ci, (n, _) in enumerate(rp.B.srcs[si]["cols"])}
        nid = 100
        try:
            for m in moves:
                t2 = R.apply_move(dict(m, i=1), [t], colmap)
                if m["v"] in ("mutate", "summarize"):
                    for kv in m["kv"]:
                        colmap[nid] = t2[kv["n"]]
                        nid += 1
                t = t2
            res[bk] = t >> R.export(R.pdt.Polars())
        except Exception as e:  # noqa: BLE001
            res[bk] = exc_class(e)
    if isinstance(res["sqlite"], str):
        return None if res["sqlite"] in ("SubqueryError", "NotSupportedError") else f"SQLite raised {res['sqlite']}"
    if isinstance(res["polars"], str):
        return f"Polars raised {res['polars']}"
    dp, ds = res["polars"], res["sqlite"]
    if list(dp.columns) != list(ds.columns):
        return f"columns differ: {dp.columns} vs {ds.columns}"
    r = CMP.compare_rows(CMP.frame_rows(dp), CMP.frame_rows(ds), None, None)
    return None if r is None else f"Polars {CMP.frame_rows(dp)[:6]} vs SQLite {CMP.frame_rows(ds)[:6]}"


def S_col_id(si, ci):
    from . import sources as S

    return S.col_id(si, ci)


def _decisions(args):
    """worker: for each path, does the code raise SubqueryError exactly where the transcribed catalogue Rq (and, with explicit
    alias() moves, the transcribed marker search of check_subquery) says so?  Paths on which an earlier alias() unblocked a verb
    are also executed on Polars and the two results compared."""
    seed, paths = args
    from . import compare as CMP
    from .replay import Replayer, exc_class

    rp = Replayer(seed, backends=("polars", "sqlite"))
    R = rp.R
    agree = 0
    drift = []
    wrong = []
    for pth in paths:
        si = rp.name_to_src[pth["srcname"]]
        t = rp.B.table("sqlite", si)
        colmap = {S_col_id(si, ci): t[n] for ci, (n, _) in enumerate(rp.B.srcs[si]["cols"])}
        nid = 100
        ok = True
        permissive = False
        vias = pth.get("via") or [False] * len(pth["moves"])
        for k, (m, need) in enumerate(zip(pth["moves"], pth["subquery"])):
            raised = False
            try:
                t2 = R.apply_move(dict(m, i=1), [t], colmap)
            except Exception as e:  # noqa: BLE001
                if exc_class(e) != "SubqueryError":
                    wrong.append(dict(src=pth["srcname"], moves=pth["moves"][: k + 1], clause="accept", exc=exc_class(e),
                                      detail=f"a verb the specification accepts raised {exc_class(e)}: {str(e)[:200]}"))
                    ok = None
                    break
                raised = True
                try:
                    t2 = R.apply_move(dict(m, i=1), [t >> R.alias(keep_col_refs=True)], colmap)
                except Exception as e2:  # noqa: BLE001
                    wrong.append(dict(src=pth["srcname"], moves=pth["moves"][: k + 1], clause="alias-unblocks", exc=exc_class(e2),
                                      detail=f"alias() directly before the refused verb did not unblock it: {exc_class(e2)}: {str(e2)[:200]}"))
                    ok = None
                    break
            if raised != (need != "") and ok:
                drift.append(dict(src=pth["srcname"], step=k, moves=pth["moves"][: k + 1], specification=("accepted through the earlier alias()" if vias[k] else need or "fits"),
                                  code="SubqueryError" if raised else "accepted"))
                ok = False
                if raised:
                    break
                permissive = True       # the code accepted what the transcription refuses: the result must then still be right
            if m["v"] in ("mutate", "summarize"):
                for kv in m["kv"]:
                    colmap[nid] = t2[kv["n"]]
                    nid += 1
            t = t2
        if ok:
            agree += 1
        if (permissive or (ok and any(vias))) and pth.get("sdef"):     # sdef: the rows are determined (no slice over an undefined order)
            # the SELECT above the marker now holds several verbs: its result against Polars
            try:
                ds = t >> R.export(R.pdt.Polars())
                tp = rp.B.table("polars", si)
                cm = {S_col_id(si, ci): tp[n] for ci, (n, _) in enumerate(rp.B.srcs[si]["cols"])}
                n2 = 100
                for m in pth["moves"]:
                    tp2 = R.apply_move(dict(m, i=1), [tp], cm)
                    if m["v"] in ("mutate", "summarize"):
                        for kv in m["kv"]:
                            cm[n2] = tp2[kv["n"]]
                            n2 += 1
                    tp = tp2
                dp = tp >> R.export(R.pdt.Polars())
                why = None
                if list(dp.columns) != list(ds.columns):
                    why = f"columns differ: {dp.columns} vs {ds.columns}"
                else:
                    r = CMP.compare_rows(CMP.frame_rows(dp), CMP.frame_rows(ds), None, None)
                    why = None if r is None else "Polars vs SQLite: " + r[1][:300]
            except Exception as e:  # noqa: BLE001
                why = f"raised {exc_class(e)}: {str(e)[:200]}"
            if why is not None:
                wrong.append(dict(src=pth["srcname"], moves=pth["moves"], detail=("the code accepted a verb the catalogue (spec) refuses; " if permissive else "") + why))
    return agree, drift, wrong


def _drift_kinds(drift):
    out = {}
    for d in drift:
        k = f"specification: {d['specification']} / code: {d['code']} / verb: {d['moves'][-1]['v']}"
        out[k] = out.get(k, 0) + 1
    return out


def phase_flat(ctx, phase):
    d = tlc.prepare(f"{ctx.prop}-flat-{os.getpid()}", ctx.seed)
    depth = phase.get("depth", 5)
    emit = bool(phase.get("paths"))
    with_alias = bool(phase.get("alias"))
    tlc.write_model(d, "MC_SqlFlat", dict(MaxDepth=depth, SrcSel=phase.get("srcs", [1, 6]), EmitPaths=emit, WithAlias=with_alias, StaleRefs=False), {}, view="View",
                    invariants=["KindsAgree", "KindsConservative"])
    found = []
    paths = []
    res = tlc.run(d, timeout=phase.get("timeout", 900), on_json=lambda o: (paths if o.get("path") else found).append(o))
    if res["violations"]:
        raise tlc.TlcError("model-level invariant violated in MC_SqlFlat:\n" + "\n".join(res.get("errctx", []) + res["log"][-40:]))
    if paths:
        n = 16
        futs = [ctx.get_pool().submit(_decisions, (ctx.seed, paths[w::n])) for w in range(n)]
        agree, drift, wrong = 0, [], []
        for fu in futs:
            a, dr, wr = fu.result()
            agree += a
            drift += dr
            wrong += wr
        for w in wrong:
            ctx.failures.append(dict(clause=w.get("clause", "rows"), backend="sqlite", step=len(w["moves"]) - 1, tainted=False, src=[w["src"]], srcidx=0,
                                     exc=w.get("exc"),
                                     detail="design-level path (MC_SqlFlat, marker search of check_subquery): " + w["detail"],
                                     moves=[dict(m, i=1) for m in w["moves"]], heap_obs=[], beh=w))
        ctx.extra["catalogue_conformance" + ("_alias" if with_alias else "")] = dict(paths=len(paths), decisions_agree=agree, drift=len(drift), drift_examples=drift[:5],
                                                  drift_kinds=_drift_kinds(drift),
                                                  via_alias_paths=sum(1 for p in paths if any(p.get("via") or [])),
                                                  via_alias_paths_compared_with_polars=sum(1 for p in paths if any(p.get("via") or []) and p.get("sdef")),
                                                  note="Rq (SqlFlat.tla) vs Cache.requires_subquery, step by step on SQLite; a disagreement is "
                                                       "'drift' (the design-level result no longer speaks for the code), not a violation by itself")
        ctx.behaviours += len(paths)
        ctx.replay_stats["steps_new"] = ctx.replay_stats.get("steps_new", 0) + sum(len(p["moves"]) for p in paths)
        ctx.replay_stats["nontrivial"] = ctx.replay_stats.get("nontrivial", 0) + sum(1 for p in paths if any(p["subquery"]))
    if res["timed_out"]:
        ctx.exhaustive = False
        ctx.notes.append("SqlFlat exploration stopped at its time budget")
    ctx.tlc_states += res["states"]
    ctx.tlc_distinct += res["distinct"]
    ctx.tlc_runs.append(dict(profile=f"sqlflat(depth {depth}{', paths' if emit else ''}{', alias' if with_alias else ''})", states=res["states"], distinct=res["distinct"],
                             counterexamples=len(found), wall=round(res["wall"], 1), mode="bfs, design level (no code runs)"))
    confirmed = 0
    for cex in found[:200]:
        why = _cross_replay(ctx.seed, cex["srcname"], cex["moves"])
        if why is not None:
            confirmed += 1
            ctx.failures.append(dict(clause="flat-correct", backend="sqlite", step=len(cex["moves"]) - 1, tainted=False, src=[cex["srcname"]], srcidx=0,
                                     detail="TLC: the catalogue accepts this verb order but the flattened SELECT differs from the sequential meaning; "
                                            "confirmed on the real code: " + why,
                                     moves=cex["moves"], heap_obs=[], beh=cex))
    ctx.extra["sqlflat" + ("_alias" if with_alias else "") + ("_paths" if emit else "")] = dict(depth=depth, counterexamples_predicted=len(found), confirmed_on_code=confirmed,
                                drift=len(found) - confirmed,
                                note="a predicted counterexample that the real code handles correctly means the transcription (SqlFlat.tla) "
                                     "no longer matches the code: recorded as drift, not as a violation")
    return d


def _run_join(rp, cex):
    """executes a two-sided join scenario of MC_SqlFlatJoin on Polars and SQLite: ({backend: frame | exception class}, moves)"""
    R = rp.R
    res = {}
    moves = []
    for bk in ("polars", "sqlite"):
        sl, sr = rp.name_to_src[cex["left"]], rp.name_to_src[cex["right"]]
        heap = [rp.B.table(bk, sl), rp.B.table(bk, sr)]
        colmap = {}
        for si, t in ((sl, heap[0]), (sr, heap[1])):
            for ci, (n, _) in enumerate(rp.B.srcs[si]["cols"]):
                colmap[S_col_id(si, ci)] = t[n]
        cur = {1: 1, 2: 2}
        nid = 100
        moves = []
        at = "pre"
        try:
            for m in cex["pre"]:
                side = m["i"]
                mm = dict(m, i=cur[side])
                moves.append(mm)
                t2 = R.apply_move(mm, heap, colmap)
                heap.append(t2)
                cur[side] = len(heap)
                if m["v"] in ("mutate", "summarize"):
                    for kv in m["kv"]:
                        colmap[nid] = t2[kv["n"]]
                        nid += 1
            at = "join"
            ra = [ci for ci, (n, _) in enumerate(rp.B.srcs[sr]["cols"]) if n == "a"][0]
            if cex["how"] == "union":
                jm = dict(v="union", i=cur[1], j=cur[2], distinct=bool(cex.get("distinct")))
            else:
                jm = dict(v="join", i=cur[1], j=cur[2], how=cex["how"], suffix="_r",
                          on=[dict(k="fn", op="eq", a=[dict(k="col", id=S_col_id(sl, 0)), dict(k="col", id=S_col_id(sr, ra))])])
            moves.append(jm)
            joined = R.apply_move(jm, heap, colmap)
            if cex.get("how2"):
                at = "join2"
                s3 = rp.name_to_src[cex["third"]]
                t3 = rp.B.table(bk, s3)
                heap.append(joined)
                heap.append(t3)
                for ci, (n, _) in enumerate(rp.B.srcs[s3]["cols"]):
                    colmap[S_col_id(s3, ci)] = t3[n]
                a3 = [ci for ci, (n, _) in enumerate(rp.B.srcs[s3]["cols"]) if n == "a"][0]
                jm2 = dict(v="join", i=len(heap) - 1, j=len(heap), how=cex["how2"], suffix="_s",
                           on=[dict(k="fn", op="eq", a=[dict(k="col", id=S_col_id(sl, 0)), dict(k="col", id=S_col_id(s3, a3))])])
                moves.append(jm2)
                joined = R.apply_move(jm2, heap, colmap)
            if bk == "sqlite":
                at = "build"
                joined >> R.build_query()
            at = "export"
            res[bk] = joined >> R.export(R.pdt.Polars())
        except Exception as e:  # noqa: BLE001
            from .replay import exc_class
            res[bk] = (exc_class(e), at)
    return res, moves


def _cross_replay_join(rp, cex):
    """replays a design-level join counterexample on Polars and SQLite; None if they agree"""
    from . import compare as CMP

    res, moves = _run_join(rp, cex)
    if isinstance(res["sqlite"], tuple):
        return (None if res["sqlite"][0] in ("SubqueryError", "NotSupportedError") else f"SQLite raised {res['sqlite'][0]}"), moves
    if isinstance(res["polars"], tuple):
        return f"Polars raised {res['polars'][0]}", moves
    dp, ds = res["polars"], res["sqlite"]
    if list(dp.columns) != list(ds.columns):
        return f"columns differ: {dp.columns} vs {ds.columns}", moves
    r = CMP.compare_rows(CMP.frame_rows(dp), CMP.frame_rows(ds), None, None)
    return (None if r is None else "Polars vs SQLite: " + r[1][:300]), moves


def _join_decisions(args):
    """worker: executes join / union scenarios and compares the catalogue's decision with the code's"""
    seed, chunk = args
    from . import compare as CMP
    from .replay import Replayer

    rp = Replayer(seed)
    agree = conservative = permissive_ok = other = 0
    reasons = {}
    failures = []
    for dc in chunk:
        res, moves = _run_join(rp, dc)
        model_refuses = bool(dc["needL"] or dc["needR"])
        reasons[dc["needL"] or dc["needR"] or "accepted"] = reasons.get(dc["needL"] or dc["needR"] or "accepted", 0) + 1
        s = res["sqlite"]
        code_refuses = isinstance(s, tuple) and s[0] == "SubqueryError" and s[1] == ("join2" if dc.get("how2") else "join")
        if isinstance(s, tuple) and not code_refuses:
            if s[0] == "SubqueryError":      # a preparatory step was refused: outside this comparison
                other += 1
                continue
            for clause in ("export-error",) + (("dialect-internal",) if s[1] == "build" and s[0] != "NotSupportedError" else ()):
                failures.append(dict(clause=clause, backend="sqlite", step=len(moves) - 1, tainted=False, src=[dc["left"], dc["right"]], srcidx=0,
                                     exc=s[0], detail=f"join / union scenario raised {s[0]} at {s[1]} on SQLite", moves=moves, heap_obs=[], beh=dc))
            continue
        if model_refuses == code_refuses:
            agree += 1
            continue
        if code_refuses:
            conservative += 1
            continue
        # the code accepts what the transcription refuses: it must then be right
        pl = res["polars"]
        why = None
        if isinstance(pl, tuple):
            why = f"Polars raised {pl[0]}"
        elif sorted(pl.columns) != sorted(s.columns):
            why = f"columns differ: {pl.columns} vs {s.columns}"
        else:
            r = CMP.compare_rows(CMP.frame_rows(pl.select(sorted(pl.columns))), CMP.frame_rows(s.select(sorted(s.columns))), None, None)
            why = None if r is None else "Polars vs SQLite: " + r[1][:300]
        if why is None:
            permissive_ok += 1
        else:
            failures.append(dict(clause="rows", backend="sqlite", step=len(moves) - 1, tainted=False, src=[dc["left"], dc["right"]], srcidx=0,
                                 detail=f"the catalogue (spec) requires a subquery here ({dc['needL'] or dc['needR']}) but the code accepted "
                                        "the join / union and the result is wrong: " + why,
                                 moves=moves, heap_obs=[], beh=dc))
    return agree, conservative, permissive_ok, other, reasons, failures


def phase_flatjoin(ctx, phase):
    """design level, joins: the merged SELECT of two accumulators vs the sequential meaning (MC_SqlFlatJoin.tla);
    second run: every reachable pair of side accumulators x join kind with the catalogue's decision, compared with the code's"""
    from .replay import Replayer

    rp = Replayer(ctx.seed)
    found, decided = [], []
    states = distinct = 0
    for (ls, rs) in phase.get("pairs", [(1, 2), (6, 2), (1, 3)]):
        for emit_all in (False, True):
            d = tlc.prepare(f"{ctx.prop}-flatjoin-{ls}-{rs}-{int(emit_all)}-{os.getpid()}", ctx.seed)
            tlc.write_model(d, "MC_SqlFlatJoin", dict(MaxPre=phase.get("pre", 2), LeftSrc=ls, RightSrc=rs, ThirdSrc=phase.get("third", 2 if rs == 3 else 3), EmitAll=emit_all), {}, view="View")
            res = tlc.run(d, workers=8, timeout=phase.get("timeout", 600), on_json=(decided if emit_all else found).append)
            states += res["states"]
            distinct += res["distinct"]
            tlc.cleanup(d)
    ctx.tlc_states += states
    ctx.tlc_distinct += distinct
    ctx.tlc_runs.append(dict(profile="sqlflat-join", states=states, distinct=distinct, counterexamples=len(found), decisions=len(decided), mode="bfs, design level"))
    confirmed = 0
    for cex in found:
        why, moves = _cross_replay_join(rp, cex)
        if why is not None:
            confirmed += 1
            ctx.failures.append(dict(clause="rows", backend="sqlite", step=len(moves) - 1, tainted=False, src=[cex["left"], cex["right"]], srcidx=0,
                                     detail="TLC (join accumulator): the catalogue accepts this join but the merged SELECT differs from the "
                                            "sequential meaning; confirmed on the real code: " + why,
                                     moves=moves, heap_obs=[], beh=cex))
    # decisions: the transcribed Join / Union rules against the code's
    uniq = {}
    for dc in decided:
        uniq.setdefault(json.dumps(dc, sort_keys=True), dc)
    seen = list(uniq.values())
    n = 16
    futs = [ctx.get_pool().submit(_join_decisions, (ctx.seed, seen[w::n])) for w in range(n)]
    agree = conservative = permissive_ok = other = 0
    reasons = {}
    for fu in futs:
        a, c, pk, o, rs, fl = fu.result()
        agree += a
        conservative += c
        permissive_ok += pk
        other += o
        for k, v in rs.items():
            reasons[k] = reasons.get(k, 0) + v
        ctx.failures.extend(fl)
    ctx.extra["sqlflat_join"] = dict(counterexamples_predicted=len(found), confirmed_on_code=confirmed, drift=len(found) - confirmed,
                                     decisions=len(seen), decisions_agree=agree, code_more_conservative=conservative,
                                     code_more_permissive_but_correct=permissive_ok, pre_step_refused=other, catalogue_decisions=reasons)
    ctx.behaviours += len(found) + len(seen)
    ctx.replay_stats["steps_new"] = ctx.replay_stats.get("steps_new", 0) + sum(len(c["pre"]) + 1 for c in found) + sum(len(c["pre"]) + 1 for c in decided)
    ctx.replay_stats["nontrivial"] = ctx.replay_stats.get("nontrivial", 0) + len(found) + len(seen)
    return None


def _tlapm(d, timeout=900, stretch=1, threads=8):
    import re
    import subprocess

    import signal

    # own process group: back-end provers that outlive tlapm (an SMT solver that does not return on a failing obligation) are killed with it
    p = subprocess.Popen(["tlapm", "--threads", str(threads), "--stretch", str(stretch), "--cleanfp", "Proofs.tla"], cwd=d, stdout=subprocess.PIPE,
                         stderr=subprocess.PIPE, text=True, start_new_session=True)
    try:
        so, se = p.communicate(timeout=timeout)
    except subprocess.TimeoutExpired:
        so, se = "", "tlapm: time limit of the harness reached"
    finally:
        try:
            os.killpg(p.pid, signal.SIGKILL)
        except (ProcessLookupError, PermissionError):
            pass
        try:
            p.wait(timeout=10)
        except Exception:  # noqa: BLE001
            pass
    out = so + se
    m = re.search(r"All (\d+) obligations? proved", out)
    f = re.search(r"(\d+)/(\d+) obligations failed", out)
    return dict(rc=p.returncode if p.returncode is not None else -9, proved=int(m.group(1)) if m else None, failed=int(f.group(1)) if f else 0, out=out)


def phase_proofs(ctx, phase):
    """TLAPS: the theorems of spec/Proofs.tla about the definitions of ValuesCore.tla, for ALL integers (TLC checks the same laws on grids).
    Binding demonstration: with the sign rule of `//` removed from ValuesCore.tla the proof of TruncDivMod must fail."""
    import shutil
    import time as _t

    t0 = _t.time()
    d = os.path.join(tlc.WORK, f"{ctx.prop}-proofs-{os.getpid()}")
    shutil.rmtree(d, ignore_errors=True)
    os.makedirs(d)
    for f in ("ValuesCore.tla", "Proofs.tla"):
        shutil.copy(os.path.join(tlc.SPEC, f), d)
    r = _tlapm(d)
    attempts = 1
    while (r["proved"] is None or r["failed"]) and attempts < 3:
        # a back-end time limit hit on a loaded machine is not a regression of the specification: try again with longer limits
        attempts += 1
        shutil.rmtree(os.path.join(d, ".tlacache"), ignore_errors=True)
        r = _tlapm(d, stretch=3 * (attempts - 1), threads=4)
    if r["proved"] is None or r["failed"]:
        raise tlc.TlcError("TLAPS: the proofs of spec/Proofs.tla no longer go through (specification regression):\n" + r["out"][-3000:])
    text = open(os.path.join(d, "Proofs.tla")).read()
    import re
    theorems = re.findall(r"^THEOREM (\w+)", text, re.M)
    canary = None
    if phase.get("canary", True):
        core = open(os.path.join(d, "ValuesCore.tla")).read()
        old = "IF (a < 0) # (b < 0) THEN -q ELSE q"
        assert old in core
        open(os.path.join(d, "ValuesCore.tla"), "w").write(core.replace(old, "q"))
        shutil.rmtree(os.path.join(d, ".tlacache"), ignore_errors=True)
        r2 = _tlapm(d)
        if not r2["failed"]:
            raise tlc.TlcError("TLAPS canary: a wrong definition of `//` (no sign rule) was still proved:\n" + r2["out"][-2000:])
        canary = dict(mutation="TDivI without the sign rule", obligations_failed=r2["failed"])
    ctx.extra["tlaps"] = dict(module="Proofs.tla over ValuesCore.tla", obligations_proved=r["proved"], theorems=theorems, attempts=attempts,
                              canary=canary, wall=round(_t.time() - t0, 1),
                              note="unbounded (all integers / naturals); the same definitions are the ones TLC evaluates in every model")
    ctx.tlc_runs.append(dict(profile="tlaps-proofs", states=0, distinct=0, obligations=r["proved"], wall=round(_t.time() - t0, 1), mode="TLAPS (SMT back end)"))
    shutil.rmtree(d, ignore_errors=True)
    return None


def _joinnames_exec(cfgs):
    """worker: performs the joins of MC_JoinNames configurations on the real code (Polars tables of one row)"""
    import polars as pl
    import pydiverse.transform as pdt
    from pydiverse.transform import export, join

    out = []
    for c in cfgs:
        left = pdt.Table(pl.DataFrame({n: [1] for n in c["l"]}), name="t1")
        right = pdt.Table(pl.DataFrame({n: [1] for n in c["r"]}), name="t2")
        rec = dict(c=c, out=[], err="", exp=[])
        try:
            on = "a" if c["onmode"] == "same" else (left.a == right.b) if c["onmode"] == "cross" else (left.lk == right.rk)
            kw = dict(suffix=c["usfx"]) if c["usfx"] else {}
            res = left >> join(right, on, how="inner", **kw)
            rec["out"] = [col.name for col in res]
            try:
                rec["exp"] = list((res >> export(pdt.Polars())).columns)
            except Exception as e:  # noqa: BLE001
                rec["exp"] = ["!" + type(e).__name__]
        except Exception as e:  # noqa: BLE001
            rec["err"] = type(e).__name__
            rec["msg"] = str(e)[:200]
        out.append(rec)
    return out


def phase_joinnames(ctx, phase):
    """C06: the documented suffix rule as a TLA+ predicate over EVERY configuration of visible names (MC_JoinNames.tla):
    TLC enumerates, the code performs each join, TLC judges the recorded names."""
    lu = phase.get("lu", ["a", "b", "a_t2", "b_t2", "a_t2_1", "b_t2_1", "a_x"])
    ru = phase.get("ru", ["a", "b", "c", "a_t2"])
    d = tlc.prepare(f"{ctx.prop}-joinnames-{os.getpid()}", ctx.seed)
    common = "LuDef == " + tlc.tla_lit(lu) + "\nRuDef == " + tlc.tla_lit(ru) + '\nUsDef == {"", "_t2", "_x"}\n'

    def write(mode):
        with open(os.path.join(d, "Run.tla"), "w") as f:
            f.write("---- MODULE Run ----\nEXTENDS MC_JoinNames\n" + common + "====\n")
        with open(os.path.join(d, "Run.cfg"), "w") as f:
            f.write(f'CONSTANTS\n  Mode = "{mode}"\n  Lu <- LuDef\n  Ru <- RuDef\n  UserSuffixes <- UsDef\n  Auto = "_t2"\nINIT Init\nNEXT Next\nCHECK_DEADLOCK FALSE\n')

    write("gen")
    cfgs = []
    tlc.run(d, workers=1, timeout=300, on_json=cfgs.append)
    n = 16
    futs = [ctx.get_pool().submit(_joinnames_exec, cfgs[w::n]) for w in range(n)]
    recs = [r for fu in futs for r in fu.result()]
    path = os.path.join(d, "joinnames.ndjson")
    # binding demonstration: a recorded outcome in which a right column took the name of a left column is appended and must be rejected
    canary = next((dict(c=r["c"], out=r["out"][:-1] + [r["out"][0]], err="") for r in recs if not r["err"] and len(r["out"]) >= 2), None)
    with open(path, "w") as f:
        for r in recs:
            f.write(json.dumps(dict(c=r["c"], out=r["out"], err=r["err"])) + "\n")
        if canary:
            f.write(json.dumps(canary) + "\n")
    write("check")
    verdicts = []
    res = tlc.run(d, workers=1, timeout=600, on_json=verdicts.append, extra_env=dict(VERIF_JOINNAMES=path))
    if canary:
        cv = [v for v in verdicts if v["i"] == len(recs) + 1]
        if not cv or cv[0]["verdict"] == "ok":
            raise tlc.TlcError("MC_JoinNames canary: a recorded outcome with a duplicated column name was judged ok")
        verdicts = [v for v in verdicts if v["i"] <= len(recs)]
    if len(verdicts) != len(recs):
        raise tlc.TlcError(f"MC_JoinNames judged {len(verdicts)} of {len(recs)} recorded joins")
    counts = {}
    mink = dict(minimal=0, other=0)
    for v in verdicts:
        r = recs[v["i"] - 1]
        counts[v["verdict"]] = counts.get(v["verdict"], 0) + 1
        c = r["c"]
        jm = dict(v="join", i=1, j=2, how="inner", suffix=c["usfx"], on=[dict(k="str", n="a")] if c["onmode"] == "same" else [])
        if v["verdict"] != "ok":
            ctx.failures.append(dict(clause="names", backend="polars", step=0, tainted=False, src=["names"], srcidx=0, exc=r["err"] or None,
                                     detail=f"join names: {v['verdict']}: left {c['l']} right {c['r']} on={c['onmode']} suffix={c['usfx']!r} -> "
                                            f"{r['out'] or r['err']} {r.get('msg', '')}",
                                     moves=[jm], heap_obs=[], beh=r))
        elif not r["err"] and r["exp"] != r["out"]:
            ctx.failures.append(dict(clause="names", backend="polars", step=0, tainted=False, src=["names"], srcidx=0,
                                     detail=f"join names: export columns {r['exp']} differ from the table's column names {r['out']}: left {c['l']} right {c['r']}",
                                     moves=[jm], heap_obs=[], beh=r))
        if v["mink"] >= 0:
            sfx = "_t2" if v["mink"] == 0 else f"_t2_{v['mink']}"
            took_min = any(x.endswith(sfx) for x in r["out"][len(c["l"]):])
            mink["minimal" if took_min else "other"] += 1
    ctx.extra["join_names"] = dict(configurations=len(recs), verdicts=counts, numeric_suffix=mink, canary_rejected=bool(canary),
                                   universe=dict(left=lu, right=ru, user_suffixes=["", "_t2", "_x"], on=["keys", "same", "cross"]))
    ctx.behaviours += len(recs)
    ctx.replay_stats["steps_new"] = ctx.replay_stats.get("steps_new", 0) + len(recs)
    ctx.replay_stats["nontrivial"] = ctx.replay_stats.get("nontrivial", 0) + sum(1 for r in recs if set(r["c"]["l"]) & set(r["c"]["r"]))
    ctx.tlc_runs.append(dict(profile="join-names", states=0, distinct=0, configurations=len(recs), mode="TLC enumerates configurations, then judges the recorded outcomes"))
    return d


def _verbnames_exec(args):
    """worker: performs the single-verb calls of MC_VerbNames configurations on the real code (Polars and SQLite, one row)"""
    cols, cfgs = args
    import polars as pl
    import pydiverse.transform as pdt
    import sqlalchemy as sqa
    from pydiverse.transform import drop, export, group_by, mutate, rename, select, summarize

    df = pl.DataFrame({n: [i + 1] for i, n in enumerate(cols)})
    eng = sqa.create_engine("sqlite://", poolclass=sqa.pool.StaticPool)
    df.write_database("t", eng, if_table_exists="replace")
    out = []
    for c in cfgs:
        for bk in ("polars", "sqlite"):
            base = pdt.Table(df, name="t") if bk == "polars" else pdt.Table("t", pdt.SqlAlchemy(eng), name="t")
            rec = dict(c=c, backend=bk, out=[], exp=[], err="")
            try:
                t = base >> select(*[base[n] for n in c["vis"]])       # the other columns are hidden
                form = c.get("form", "col")

                def ref(n):
                    return t[n] if form == "col" else pdt.C[n] if form == "cname" else n

                if c["verb"] == "rename":
                    r = t >> rename({(k if form == "str" else ref(k)): v for k, v in c["map"]})
                elif c["verb"] == "select":
                    r = t >> select(*[ref(n) for n in c["args"]])
                elif c["verb"] == "drop":
                    r = t >> drop(*[ref(n) for n in c["args"]])
                elif c["verb"] == "summarize":
                    first = t[c["vis"][0]] if form != "cname" else pdt.C[c["vis"][0]]
                    g = t >> group_by(*[ref(k) for k, _ in c["map"]]) if c["map"] else t
                    r = g >> summarize(**{n: first.max() + i for i, n in enumerate(c["args"])})
                else:
                    first = t[c["vis"][0]] if form != "cname" else pdt.C[c["vis"][0]]
                    r = t >> mutate(**{n: first + (i + 1) for i, n in enumerate(c["args"])})
                rec["out"] = [col.name for col in r]
                try:
                    rec["exp"] = list((r >> export(pdt.Polars())).columns)
                except Exception as e:  # noqa: BLE001
                    rec["exp"] = ["!" + type(e).__name__]
            except Exception as e:  # noqa: BLE001
                rec["err"] = type(e).__name__
                rec["msg"] = str(e)[:160].split("\n")[0]
            out.append(rec)
    return out


def phase_verbnames(ctx, phase):
    """names after rename / select / drop / mutate for EVERY argument over a small universe (MC_VerbNames.tla): TLC enumerates,
    the code performs each call, TLC judges the recorded names, export names and error classes."""
    cols = phase.get("cols", ["a", "b", "c", "x"])
    keys = phase.get("keys", ["a", "b", "c", "z"])
    vals = phase.get("vals", ["a", "b", "x", "y"])
    d = tlc.prepare(f"{ctx.prop}-verbnames-{os.getpid()}", ctx.seed)
    common = f"ColsDef == {tlc.tla_lit(cols)}\nKeysDef == {tlc.tla_lit(keys)}\nValsDef == {tlc.tla_lit(vals)}\n"

    def write(mode):
        with open(os.path.join(d, "Run.tla"), "w") as f:
            f.write("---- MODULE Run ----\nEXTENDS MC_VerbNames\n" + common + "====\n")
        with open(os.path.join(d, "Run.cfg"), "w") as f:
            f.write(f'CONSTANTS\n  Mode = "{mode}"\n  Cols <- ColsDef\n  Keys <- KeysDef\n  Vals <- ValsDef\nINIT Init\nNEXT Next\nCHECK_DEADLOCK FALSE\n')

    write("gen")
    cfgs = []
    tlc.run(d, workers=1, timeout=600, on_json=cfgs.append)
    n = 16
    futs = [ctx.get_pool().submit(_verbnames_exec, (cols, cfgs[w::n])) for w in range(n)]
    recs = [r for fu in futs for r in fu.result()]
    path = os.path.join(d, "verbnames.ndjson")
    # binding demonstration: a recorded outcome with its names reversed is appended and must be rejected
    canary = next((dict(c=r["c"], out=r["out"][::-1], exp=r["exp"][::-1], err="") for r in recs if not r["err"] and len(r["out"]) >= 2), None)
    with open(path, "w") as f:
        for r in recs:
            f.write(json.dumps(dict(c=r["c"], out=r["out"], exp=r["exp"], err=r["err"])) + "\n")
        if canary:
            f.write(json.dumps(canary) + "\n")
    write("check")
    verdicts = []
    tlc.run(d, workers=1, timeout=900, on_json=verdicts.append, extra_env=dict(VERIF_VERBNAMES=path))
    if canary:
        cv = [v for v in verdicts if v["i"] == len(recs) + 1]
        if not cv or cv[0]["verdict"] == "ok":
            raise tlc.TlcError("MC_VerbNames canary: a recorded outcome with reversed names was judged ok")
        verdicts = [v for v in verdicts if v["i"] <= len(recs)]
    if len(verdicts) != len(recs):
        raise tlc.TlcError(f"MC_VerbNames judged {len(verdicts)} of {len(recs)} recorded calls")
    counts = {}
    for v in verdicts:
        r = recs[v["i"] - 1]
        c = r["c"]
        counts.setdefault(c["verb"], {}).setdefault(v["verdict"], 0)
        counts[c["verb"]][v["verdict"]] += 1
        if v["verdict"] != "ok":
            arg = dict(c["map"]) if c["verb"] == "rename" else c["args"]
            clause = "errclass" if v["verdict"] in ("invalid-call-accepted", "wrong-error-class") else "accept" if v["verdict"] == "unexpected-error" else "names"
            ctx.failures.append(dict(clause=clause, backend=r["backend"], step=0, tainted=False, src=["names"], srcidx=0, exc=r["err"] or None,
                                     detail=f"{c['verb']} names: {v['verdict']}: visible {c['vis']} (columns {cols}) {c['verb']}({arg}) -> "
                                            f"names {r['out']} export {r['exp']} {r['err']} {r.get('msg', '')}",
                                     moves=[dict(v=c["verb"], i=1)], heap_obs=[], beh=r))
    ctx.extra["verb_names"] = dict(configurations=len(recs), verdicts=counts, canary_rejected=bool(canary), universe=dict(columns=cols, rename_keys=keys, new_names=vals))
    ctx.behaviours += len(recs)
    ctx.replay_stats["steps_new"] = ctx.replay_stats.get("steps_new", 0) + len(recs)
    ctx.replay_stats["nontrivial"] = ctx.replay_stats.get("nontrivial", 0) + len(recs)
    ctx.tlc_runs.append(dict(profile="verb-names", states=0, distinct=0, configurations=len(recs), mode="TLC enumerates configurations, then judges the recorded outcomes"))
    return d


def _argspace_exec(args):
    """worker: slice_head chains and unions of MC_ArgSpace on the real code (Polars and SQLite)"""
    ucols, sizes, cfgs = args
    import polars as pl
    import pydiverse.transform as pdt
    import sqlalchemy as sqa
    from pydiverse.transform import alias, arrange, export, group_by, join, mutate, select, slice_head, summarize, union

    eng = sqa.create_engine("sqlite://", poolclass=sqa.pool.StaticPool)
    frames = {}
    for z in sizes:
        frames[("s", z)] = pl.DataFrame({"rid": list(range(1, z + 1))}, schema={"rid": pl.Int64})
        frames[("s", z)].write_database(f"s{z}", eng, if_table_exists="replace")
    for side, nm in ((1, "ul"), (2, "ur")):
        frames[nm] = pl.DataFrame({n: [10 * (j + 1) + side] for j, n in enumerate(ucols)})
        frames[nm].write_database(nm, eng, if_table_exists="replace")

    def tbl(bk, key, name):
        return pdt.Table(frames[key], name=name) if bk == "polars" else pdt.Table(name, pdt.SqlAlchemy(eng), name=name)

    def keytbl(bk, side, keys, kfloat=False):
        """(lid | rid, k) table for a key sequence (0 = NULL); created on first use; kfloat: the key column is Float64"""
        key = (side + ("f" if kfloat else ""), tuple(keys))
        name = f"j{side}{'f' if kfloat else ''}_" + "".join(map(str, keys)) + "x"
        if key not in frames:
            frames[key] = pl.DataFrame({side + "id": list(range(1, len(keys) + 1)), "k": [None if v == 0 else (float(v) if kfloat else v) for v in keys]},
                                       schema={side + "id": pl.Int64, "k": pl.Float64 if kfloat else pl.Int64})
            frames[key].write_database(name, eng, if_table_exists="replace")
        return tbl(bk, key, name)

    out = []
    for c in cfgs:
        for bk in ("polars", "sqlite"):
            rec = dict(c=c, backend=bk, out=[], names=[], err="")
            try:
                if c["verb"] == "slices":
                    t = tbl(bk, ("s", c["size"]), f"s{c['size']}")
                    r = t >> arrange(t.rid)
                    for q, (n, k) in enumerate(c["args"]):
                        if q > 0 and c["alias"]:
                            r = r >> alias()
                        r = r >> slice_head(n, offset=k)
                    rec["out"] = (r >> export(pdt.Polars()))["rid"].to_list()
                elif c["verb"] == "mutate":
                    key = "mut"
                    if key not in frames:
                        frames[key] = pl.DataFrame({"a": [1, 2], "b": [10, 20]})
                        frames[key].write_database("mut", eng, if_table_exists="replace")
                    t = tbl(bk, key, "mut")
                    ex = {"a": t.a, "b": t.b, "ab": t.a + t.b, "z": pdt.lit(0)}
                    df = t >> mutate(**{n: ex[x] for n, x in zip(c["names"], c["exprs"])}) >> arrange(t.a) >> export(pdt.Polars())
                    rec["names"] = list(df.columns)
                    rec["out"] = [list(x) for x in df.rows()]
                elif c["verb"] == "arrange":
                    rows = [tuple(x) for x in c["rows"]]
                    key = ("o", tuple(rows))
                    name = "o" + "".join(("n" if a == 99 else str(a)) + ("n" if b == 99 else str(b)) for a, b in rows) + "x"
                    if key not in frames:
                        frames[key] = pl.DataFrame({"rid": list(range(1, len(rows) + 1)), "k1": [None if a == 99 else a for a, _ in rows],
                                                    "k2": [None if b == 99 else b for _, b in rows]},
                                                   schema={"rid": pl.Int64, "k1": pl.Int64, "k2": pl.Int64})
                        frames[key].write_database(name, eng, if_table_exists="replace")
                    t = tbl(bk, key, name)
                    o1 = t.k1.descending() if c["d1"] else t.k1
                    o1 = o1.nulls_first() if c["n1"] == "first" else o1.nulls_last()
                    o2 = t.k2.descending() if c["d2"] else t.k2
                    o2 = o2.nulls_first() if c["n2"] == "first" else o2.nulls_last()
                    r = ((t >> arrange(pdt.lit(2), o1, o2)) if c.get("ck") == "lit"
                         else (t >> mutate(k=2) >> arrange(pdt.C.k, o1, o2) >> select(t.rid, t.k1, t.k2)) if c.get("ck") == "col" else (t >> arrange(o1, o2)))
                    if c["take"]:
                        r = r >> slice_head(c["take"])
                    rec["out"] = (r >> export(pdt.Polars()))["rid"].to_list()
                elif c["verb"] == "agg":
                    from fractions import Fraction
                    rows = [tuple(x) for x in c["rows"]]
                    key = ("a", tuple(rows))
                    name = "a" + "".join(("n" if k == 99 else str(k)) + ("n" if v == 99 else "m" if v == -1 else str(v)) for k, v in rows) + "x"
                    if key not in frames:
                        frames[key] = pl.DataFrame({"rid": list(range(1, len(rows) + 1)), "g": [None if k == 99 else k for k, _ in rows],
                                                    "v": [None if v == 99 else v for _, v in rows]},
                                                   schema={"rid": pl.Int64, "g": pl.Int64, "v": pl.Int64})
                        frames[key].write_database(name, eng, if_table_exists="replace")
                    t = tbl(bk, key, name)
                    kw = dict(partition_by=t.g) if c["mode"] == "window" else {}
                    if c.get("flt", "none") == "vpos":
                        kw["filter"] = t.v > 0
                    elif c.get("flt") == "list":
                        kw["filter"] = [t.v > -5, t.v < 2]
                    e = pdt.count(**kw) if c["op"] == "len" else getattr(t.v, c["op"])(**kw)

                    def enc(x):
                        if x is None:
                            return [0, 0] if c["op"] == "mean" else 99
                        if c["op"] == "mean":
                            fr = Fraction(x).limit_denominator(1000)
                            return [fr.numerator, fr.denominator]
                        return int(x)

                    if c["mode"] == "grouped":
                        df = t >> group_by(t.g) >> summarize(r=e) >> export(pdt.Polars())
                        rec["out"] = [[99 if k is None else k, enc(x)] for k, x in zip(df["g"].to_list(), df["r"].to_list())]
                    elif c["mode"] == "ungrouped":
                        df = t >> summarize(r=e) >> export(pdt.Polars())
                        rec["out"] = [[0, enc(x)] for x in df["r"].to_list()]
                    elif c["mode"] == "constgroup":
                        df = t >> mutate(k=5) >> group_by(pdt.C.k) >> summarize(r=e) >> export(pdt.Polars())
                        rec["out"] = [[0, enc(x)] for x in df["r"].to_list()]
                    else:
                        df = t >> mutate(r=e) >> export(pdt.Polars())
                        rec["out"] = [[i, enc(x)] for i, x in zip(df["rid"].to_list(), df["r"].to_list())]
                elif c["verb"] == "win":
                    keys = c["keys"]
                    key = ("w", tuple(keys), c["vnull"])
                    name = "w" + "".join("n" if v == 99 else str(v) for v in keys) + ("v" if c["vnull"] else "") + "x"
                    if key not in frames:
                        nrow = len(keys)
                        frames[key] = pl.DataFrame({"rid": list(range(1, nrow + 1)), "k": [None if v == 99 else v for v in keys],
                                                    "v": [None if (c["vnull"] and i == 2) else i for i in range(1, nrow + 1)],
                                                    "p": [i % 2 for i in range(1, nrow + 1)]},
                                                   schema={"rid": pl.Int64, "k": pl.Int64, "v": pl.Int64, "p": pl.Int64})
                        frames[key].write_database(name, eng, if_table_exists="replace")
                    t = tbl(bk, key, name)
                    o = t.k.descending() if c["desc"] else t.k
                    o = o.nulls_first() if c["nl"] == "first" else o.nulls_last()
                    kw = dict(arrange=o)
                    if c["part"]:
                        kw["partition_by"] = t.p
                    fn = c["fn"]
                    e = (pdt.row_number(**kw) if fn == "row_number" else pdt.rank(**kw) if fn == "rank" else pdt.dense_rank(**kw) if fn == "dense_rank"
                         else t.v.shift(1, **kw) if fn == "shift1" else t.v.shift(-1, **kw) if fn == "shiftm1" else t.v.cum_sum(**kw))
                    df = t >> mutate(r=e) >> export(pdt.Polars())
                    byrid = dict(zip(df["rid"].to_list(), df["r"].to_list()))
                    rec["out"] = [99 if byrid[i] is None else int(byrid[i]) for i in range(1, len(keys) + 1)]
                elif c["verb"] == "joinrows":
                    lt, rt = keytbl(bk, "l", c["l"]), keytbl(bk, "r", c["r"], kfloat=c.get("form") == "rfloat")
                    if not c.get("named", True) and bk == "polars":
                        lt, rt = pdt.Table(frames[("l", tuple(c["l"]))]), pdt.Table(frames[("r", tuple(c["r"]))])
                    on = ("k" if c["on"] == "str" else (lt.k == rt.k) if c["on"] == "eq" else (lt.k <= rt.k) if c["on"] == "le"
                          else [lt.k == rt.k, lt.lid == lt.k] if c["on"] == "eqleft" else [lt.k == rt.k, rt.rid == rt.k] if c["on"] == "eqright"
                          else [pdt.lit(2) == rt.k, lt.k == rt.k] if c["on"] == "eqlit" else (rt.k == 2) if c["on"] == "rlit"
                          else (lt.k == rt.k) & (lt.lid <= rt.rid))
                    fm = c.get("form", "and")
                    if fm == "list":
                        on = [lt.k == rt.k, lt.lid <= rt.rid]
                    elif fm == "all":
                        on = pdt.all(lt.k == rt.k, lt.lid <= rt.rid)
                    elif fm == "and3":
                        on = (lt.k == rt.k) & (lt.k <= rt.k) & (lt.lid <= rt.rid)
                    elif fm == "all3":
                        on = pdt.all(lt.k == rt.k, lt.k <= rt.k, lt.lid <= rt.rid)
                    if c["on"] == "cross":
                        from pydiverse.transform import cross_join

                        df = lt >> cross_join(rt) >> export(pdt.Polars())
                    else:
                        df = lt >> join(rt, on, how=c["how"]) >> export(pdt.Polars())
                    ridc = next(n for n in df.columns if n.startswith("rid"))        # an empty condition suffixes every right column
                    if c.get("form") == "rfloat" and bk == "polars":
                        # the right key column keeps its own type (Float64) whatever the left key's type is
                        rk = [n for n in df.columns if n.startswith("k") and n != "k"]
                        if not rk or str(df.schema[rk[0]]) != "Float64":
                            raise TypeError(f"right key column exported as {dict(df.schema)}")
                    rec["out"] = [[a or 0, b or 0] for a, b in zip(df["lid"].to_list(), df[ridc].to_list())]
                else:
                    lt, rt = tbl(bk, "ul", "ul"), tbl(bk, "ur", "ur")
                    le = lt >> select(*[lt[n] for n in c["l"]])
                    ri = rt >> select(*[rt[n] for n in c["r"]])
                    u = le >> union(ri, distinct=c["distinct"])
                    df = u >> export(pdt.Polars())
                    rec["names"] = list(df.columns)
                    rec["out"] = [list(x) for x in df.rows()]
            except Exception as e:  # noqa: BLE001
                rec["err"] = type(e).__name__
                rec["msg"] = str(e)[:160].split("\n")[0]
            out.append(rec)
    return out


def phase_argspace(ctx, phase):
    """slice_head chains (numbers) and unions (name sets) over their whole small argument space (MC_ArgSpace.tla)"""
    ns, ks, sizes = phase.get("ns", [0, 1, 2, 4]), phase.get("ks", [0, 1, 2, 5]), phase.get("sizes", [0, 3, 5])
    ucols = phase.get("ucols", ["a", "b", "c"])
    jkeys, jmax = phase.get("jkeys", [0, 1, 2]), phase.get("jmax", 3)
    wmax, amax = phase.get("wmax", 4), phase.get("amax", 3)
    verbs = phase.get("verbs", ["slices", "union", "joinrows", "win", "agg", "arrange", "mutate"])
    d = tlc.prepare(f"{ctx.prop}-argspace-{os.getpid()}", ctx.seed)
    common = (f"NsDef == {{{', '.join(map(str, ns))}}}\nKsDef == {{{', '.join(map(str, ks))}}}\nSizesDef == {{{', '.join(map(str, sizes))}}}\n"
              f"UColsDef == {tlc.tla_lit(ucols)}\nJKeysDef == {{{', '.join(map(str, jkeys))}}}\n"
              f"GenVerbsDef == {{{', '.join(tlc.tla_lit(v) for v in verbs)}}}\n")

    def write(mode):
        with open(os.path.join(d, "Run.tla"), "w") as f:
            f.write("---- MODULE Run ----\nEXTENDS MC_ArgSpace\n" + common + "====\n")
        with open(os.path.join(d, "Run.cfg"), "w") as f:
            f.write(f'CONSTANTS\n  Mode = "{mode}"\n  GenVerbs <- GenVerbsDef\n  Ns <- NsDef\n  Ks <- KsDef\n  Sizes <- SizesDef\n  UCols <- UColsDef\n  JKeys <- JKeysDef\n  JMaxLen = {jmax}\n  WMaxLen = {wmax}\n  AMaxLen = {amax}\n  NULL = NULL\n  UNDEF = UNDEF\n  ANY = ANY\nINIT Init\nNEXT Next\nCHECK_DEADLOCK FALSE\n')

    write("gen")
    cfgs = []
    tlc.run(d, workers=1, timeout=600, on_json=lambda c: cfgs.append(c) if c["verb"] in verbs else None)
    n = 16
    futs = [ctx.get_pool().submit(_argspace_exec, (ucols, sizes, cfgs[w::n])) for w in range(n)]
    recs = [r for fu in futs for r in fu.result()]
    path = os.path.join(d, "argspace.ndjson")
    # binding demonstration: a corrupted copy of a recorded outcome (last row removed) is appended and must be rejected
    canary = next((dict(c=r["c"], out=r["out"][:-1], names=r["names"], err="") for r in recs if not r["err"] and len(r["out"]) >= 1), None)
    with open(path, "w") as f:
        for r in recs:
            f.write(json.dumps(dict(c=r["c"], out=r["out"], names=r["names"], err=r["err"])) + "\n")
        if canary:
            f.write(json.dumps(canary) + "\n")
    write("check")
    verdicts = []
    tlc.run(d, workers=1, timeout=900, on_json=verdicts.append, extra_env=dict(VERIF_ARGSPACE=path))
    if canary:
        cv = [v for v in verdicts if v["i"] == len(recs) + 1]
        if not cv or cv[0]["verdict"] == "ok":
            raise tlc.TlcError("MC_ArgSpace canary: a recorded outcome with its last row removed was judged ok")
        verdicts = [v for v in verdicts if v["i"] <= len(recs)]
    if len(verdicts) != len(recs):
        raise tlc.TlcError(f"MC_ArgSpace judged {len(verdicts)} of {len(recs)} recorded calls")
    counts = {}
    for v in verdicts:
        r = recs[v["i"] - 1]
        c = r["c"]
        counts.setdefault(c["verb"], {}).setdefault(v["verdict"], 0)
        counts[c["verb"]][v["verdict"]] += 1
        if v["verdict"] != "ok":
            clause = "order" if v["verdict"] == "order" else "rows" if v["verdict"] in ("rows", "row-count", "values", "groups") else ("names" if v["verdict"] == "names" else "export-error" if v["verdict"] == "unexpected-error" else "errclass")
            what = (f"{c['size']} rows, arrange(rid) >> " + (" >> alias() >> " if c["alias"] else " >> ").join(f"slice_head({n}, offset={k})" for n, k in c["args"])
                    if c["verb"] == "slices" else f"keys {c['l']} join keys {c['r']} (0 = null) how={c['how']} on={c['on']} form={c.get('form')}" if c["verb"] == "joinrows"
                    else f"(g, v) rows {c['rows']} (99 = null): {c['op']} {c['mode']} filter={c.get('flt')}" if c["verb"] == "agg"
                    else (f"(k1, k2) rows {c['rows']} (99 = null): arrange(k1{'.descending()' if c['d1'] else ''}.nulls_{c['n1']}(), "
                          f"k2{'.descending()' if c['d2'] else ''}.nulls_{c['n2']}()){' >> slice_head(2)' if c['take'] else ''}") if c["verb"] == "arrange"
                    else "mutate(" + ", ".join(f"{n}={x}" for n, x in zip(c["names"], c["exprs"])) + ") on a=[1,2], b=[10,20]" if c["verb"] == "mutate"
                    else f"k={c['keys']} (99 = null){', v null in row 2' if c['vnull'] else ''}: {c['fn']}(arrange=k{'.descending()' if c['desc'] else ''}.nulls_{c['nl']}(){', partition_by=rid%2' if c['part'] else ''})" if c["verb"] == "win"
                    else f"select{c['l']} >> union(select{c['r']}, distinct={c['distinct']})")
            ctx.failures.append(dict(clause=clause, backend=r["backend"], step=0, tainted=False, src=["argspace"], srcidx=0, exc=r["err"] or None,
                                     detail=f"{c['verb']}: {v['verdict']}: {what} -> {r['names']} {r['out']} {r['err']} {r.get('msg', '')}",
                                     moves=[dict(v={"slices": "slice_head", "joinrows": "join", "win": "mutate", "agg": "summarize", "arrange": "arrange", "mutate": "mutate"}.get(c["verb"], "union"), i=1)], heap_obs=[], beh=r))
    uni = dict(slices=dict(n=ns, offset=ks, table_sizes=sizes), union=dict(columns=ucols), joinrows=dict(keys=jkeys, max_rows=jmax),
               win=dict(max_rows=wmax), agg=dict(max_rows=amax), arrange=dict(max_rows=amax), mutate=dict(names=["a", "b", "c"], rhs=["a", "b", "a+b", "0"]))
    ctx.extra.setdefault("arg_space", {})["+".join(verbs)] = dict(configurations=len(cfgs), executions=len(recs), verdicts=counts, canary_rejected=bool(canary),
                                                                  universe={v: uni[v] for v in verbs})
    ctx.behaviours += len(recs)
    ctx.replay_stats["steps_new"] = ctx.replay_stats.get("steps_new", 0) + len(recs)
    ctx.replay_stats["nontrivial"] = ctx.replay_stats.get("nontrivial", 0) + len(recs)
    ctx.tlc_runs.append(dict(profile="arg-space", states=0, distinct=0, configurations=len(cfgs), mode="TLC enumerates configurations, then judges the recorded outcomes"))
    return d


def _lca_exec(cfgs):
    """worker: type unification of every argument order on the real code: types.lca_type, CaseExpr.dtype, union of two tables"""
    import itertools
    import uuid as _uuid

    import polars as pl
    import pydiverse.transform as pdt
    from pydiverse.transform import union
    from pydiverse.transform._internal.ops.op import Ftype
    from pydiverse.transform._internal.tree import types
    from pydiverse.transform._internal.tree.col_expr import CaseExpr, Col

    from . import catalog as C

    by_tok = {C.tok(t): t for t in C.all_types()}

    def outcome(f):
        try:
            return ["type", C.tok(types.without_const(f()))]
        except Exception as e:  # noqa: BLE001
            return [type(e).__name__, ""]

    def col(t):
        return Col("x", None, _uuid.uuid1(), t, Ftype.ELEMENT_WISE)

    def case_type(ts):
        cond = col(pdt.Bool())
        vals = [col(t) for t in ts]
        if len(vals) == 1:
            return CaseExpr([(cond, vals[0])]).dtype()
        return CaseExpr([(cond, v) for v in vals[:-1]], vals[-1]).dtype()

    def frame(t):
        try:
            pt = t.to_polars()
            df = pl.DataFrame({"x": pl.Series([], dtype=pt)})
            tb = pdt.Table(df)
            return tb if C.tok(types.without_const(tb.x.dtype())) == C.tok(t) else None
        except Exception:  # noqa: BLE001
            return None

    def uniq(xs):
        out = []
        for v in xs:
            if v not in out:
                out.append(v)
        return out

    recs = []
    null = by_tok["NullType"]
    for c in cfgs:
        ts = [by_tok[k] for k in c["ts"]]
        perms = uniq(list(itertools.permutations(ts)))
        rec = dict(c=c)
        rec["outs"] = uniq([outcome(lambda p=p: types.lca_type(list(p))) for p in perms])
        rec["withnull"] = uniq([outcome(lambda p=p, i=i: types.lca_type(list(p[:i]) + [null] + list(p[i:]))) for p in perms for i in range(len(p) + 1)])
        rec["cases"] = uniq([outcome(lambda p=p: case_type(p)) for p in perms])
        rec["caseconst"] = []
        if len(ts) == 1 and not isinstance(ts[0], types.NullType):
            from pydiverse.transform._internal.tree.col_expr import LiteralCol

            def is_c(cond, val):
                try:
                    return bool(types.is_const(CaseExpr([(cond, val)]).dtype()))
                except Exception:  # noqa: BLE001
                    return None

            cc, cl = col(pdt.Bool()), LiteralCol(True)
            vc, vl = col(ts[0]), LiteralCol(None, dtype=ts[0])
            obs = [is_c(cc, vl), is_c(cl, vl), is_c(cl, vc)]
            rec["caseconst"] = obs if None not in obs else []
        rec["unions"] = []
        if len(ts) == 2:
            fl, fr = frame(ts[0]), frame(ts[1])
            if fl is not None and fr is not None:
                rec["unions"] = uniq([outcome(lambda a=a, b=b: (a >> union(b)).x.dtype()) for a, b in ((fl, fr), (fr, fl))])
        recs.append(rec)
    return recs


def phase_lca(ctx, phase):
    """type unification over every multiset of the type universe (MC_Lca.tla): TLC enumerates, the code unifies every order, TLC judges"""
    from . import catalog as C

    maxn = phase.get("max_n", 2)
    d = tlc.prepare(f"{ctx.prop}-lca-{os.getpid()}", ctx.seed)
    text, _meta = C.catalog_module()
    with open(os.path.join(d, "Catalog.tla"), "w") as f:
        f.write(text)

    def write(mode):
        with open(os.path.join(d, "Run.tla"), "w") as f:
            f.write("---- MODULE Run ----\nEXTENDS MC_Lca\n====\n")
        with open(os.path.join(d, "Run.cfg"), "w") as f:
            f.write(f'CONSTANTS\n  Mode = "{mode}"\n  MaxN = {maxn}\nINIT Init\nNEXT Next\nCHECK_DEADLOCK FALSE\n')

    write("gen")
    cfgs = []
    tlc.run(d, workers=1, timeout=900, on_json=cfgs.append)
    n = 16
    futs = [ctx.get_pool().submit(_lca_exec, cfgs[w::n]) for w in range(n)]
    recs = [r for fu in futs for r in fu.result()]
    path = os.path.join(d, "lca.ndjson")
    # binding demonstration: a record whose outcome is replaced by a type no argument converts to must be rejected
    canary = next((dict(r, outs=[["type", "Duration"]], withnull=[["type", "Duration"]], cases=[], unions=[], caseconst=[]) for r in recs
                   if r["outs"] == [["type", "Int"]]), None)
    with open(path, "w") as f:
        for r in recs + ([canary] if canary else []):
            f.write(json.dumps(r) + "\n")
    write("check")
    verdicts = []
    tlc.run(d, workers=1, timeout=1800, on_json=verdicts.append, extra_env=dict(VERIF_LCA=path))
    if canary:
        cv = [v for v in verdicts if v["i"] == len(recs) + 1]
        if not cv or cv[0]["verdict"] == "ok":
            raise tlc.TlcError("MC_Lca canary: an outcome that is no upper bound of its arguments was judged ok")
        verdicts = [v for v in verdicts if v["i"] <= len(recs)]
    if len(verdicts) != len(recs):
        raise tlc.TlcError(f"MC_Lca judged {len(verdicts)} of {len(recs)} records")
    counts = {}
    for v in verdicts:
        counts[v["verdict"]] = counts.get(v["verdict"], 0) + 1
        if v["verdict"] != "ok":
            r = recs[v["i"] - 1]
            exc = next((o[0] for o in r["outs"] + r["withnull"] + r["cases"] + r["unions"] if o[0] not in ("type", "DataTypeError", "TypeError")), None)
            ctx.failures.append(dict(clause="lca-internal" if v["verdict"] == "internal-error" else "lca", backend="code", step=0, tainted=False, src=["types"], srcidx=0, exc=exc,
                                     detail=f"type unification of {r['c']['ts']}: {v['verdict']}: lca_type {r['outs']}, with null {r['withnull']}, case {r['cases']}, union {r['unions']}",
                                     moves=[dict(v="lca", args=r["c"]["ts"])], heap_obs=[], beh=r))
    ctx.extra.setdefault("lca", {})[f"max_n={maxn}"] = dict(multisets=len(cfgs), verdicts=counts, canary_rejected=bool(canary))
    ctx.behaviours += len(recs)
    ctx.replay_stats["steps_new"] = ctx.replay_stats.get("steps_new", 0) + len(recs)
    ctx.replay_stats["nontrivial"] = ctx.replay_stats.get("nontrivial", 0) + len(recs)
    ctx.tlc_runs.append(dict(profile="lca", states=0, distinct=0, configurations=len(cfgs), mode="TLC enumerates argument multisets, then judges the recorded outcomes"))
    return d


def _msboolbit_exec(recs):
    """worker: the real convert_bool_bit on the expression of every record, matched node by node against the transcription's tree;
    mutate(x = e) / filter(e) compiled on the SQL Server dialect"""
    import uuid as _uuid

    import pydiverse.transform as pdt
    from pydiverse.transform import build_query, filter, mutate
    from pydiverse.transform._internal.backend.mssql import convert_bool_bit
    from pydiverse.transform._internal.ops import ops
    from pydiverse.transform._internal.ops.op import Ftype
    from pydiverse.transform._internal.tree.col_expr import CaseExpr, Cast, Col, ColFn, LiteralCol

    from . import dialects as D

    D.install_stubs()
    tbl = pdt.Table(D.sqa_table("t", [("a", "int"), ("b", "bool")]), pdt.SqlAlchemy(D.engines()["mssql"]))
    OPS = {"and": ops.bool_and, "or": ops.bool_or, "xor": ops.bool_xor, "not": ops.bool_invert, "hany": ops.horizontal_any, "eq": ops.equal,
           "gt": ops.greater_than, "is_null": ops.is_null, "is_in": ops.is_in, "fill_null": ops.fill_null, "add": ops.add, "any": ops.any, "sum": ops.sum}

    def build(e):
        k = e["k"]
        if k == "col":
            return tbl.b if e["ty"] == "bool" else tbl.a
        if k == "lit":
            return LiteralCol(True) if e["ty"] == "bool" else LiteralCol(1)
        if k == "fn":
            return ColFn(OPS[e["op"]], *[build(x) for x in e["a"]])
        if k == "case":
            return CaseExpr([(build(e["a"][0]), build(e["a"][1]))], build(e["a"][2]))
        if k == "cast":
            return Cast(build(e["a"][0]), pdt.Int64())
        raise ValueError(k)

    def match(m, r):
        """does the real tree r have the shape of the transcription's tree m?"""
        k = m["k"]
        if k == "col":
            return isinstance(r, Col)
        if k == "lit":
            return isinstance(r, LiteralCol)
        if k == "eqtrue":
            return isinstance(r, ColFn) and r.op == ops.equal and len(r.args) == 2 and isinstance(r.args[1], LiteralCol) and r.args[1].val is True \
                and match(m["a"][0], r.args[0])
        if k == "casebit":
            return (isinstance(r, CaseExpr) and r.default_val is None and len(r.cases) == 2
                    and isinstance(r.cases[0][1], LiteralCol) and r.cases[0][1].val is True and isinstance(r.cases[1][1], LiteralCol) and r.cases[1][1].val is False
                    and match(m["a"][0], r.cases[0][0])
                    and isinstance(r.cases[1][0], ColFn) and r.cases[1][0].op == ops.bool_invert and match(m["a"][0], r.cases[1][0].args[0]))
        if k == "fn":
            return isinstance(r, ColFn) and r.op == OPS[m["op"]] and len(r.args) == len(m["a"]) and all(match(x, y) for x, y in zip(m["a"], r.args))
        if k == "case":
            return (isinstance(r, CaseExpr) and len(r.cases) == 1 and r.default_val is not None and match(m["a"][0], r.cases[0][0])
                    and match(m["a"][1], r.cases[0][1]) and match(m["a"][2], r.default_val))
        if k == "cast":
            return isinstance(r, Cast) and match(m["a"][0], r.val)
        return False

    out = []
    for rec in recs:
        res = dict(agree=False, err="", build="")
        try:
            e = build(rec["e"])
            e.dtype()
            res["agree"] = bool(match(rec["conv"], convert_bool_bit(e, rec["want"])))
        except Exception as ex:  # noqa: BLE001
            res["err"] = f"{type(ex).__name__}: {str(ex)[:120]}"
        try:
            if rec["want"] == "bit":
                q = tbl >> mutate(x__=build(rec["e"])) >> build_query()
            elif rec["e"]["ty"] == "bool" and not _has_agg(rec["e"]):
                q = tbl >> filter(build(rec["e"])) >> build_query()
            else:
                q = "SELECT"
            if not str(q).lstrip().upper().startswith("SELECT"):
                res["build"] = "no SELECT"
        except Exception as ex:  # noqa: BLE001
            if type(ex).__name__ not in ("NotSupportedError", "SubqueryError", "FunctionTypeError", "DataTypeError"):
                res["build"] = f"{type(ex).__name__}: {str(ex)[:160]}"
        out.append(res)
    return out


def _has_agg(e):
    return (e["k"] == "fn" and e["op"] in ("any", "sum")) or any(_has_agg(x) for x in e.get("a", []))


def phase_msboolbit(ctx, phase):
    """the SQL Server bool / bit rewrite (MC_MsBoolBit.tla): TLC proves the transcribed rewrite well typed for every expression up to the
    depth bound; the real convert_bool_bit is matched against the transcription and every expression is compiled on the MSSQL dialect"""
    depth = phase.get("depth", 1)
    d = tlc.prepare(f"{ctx.prop}-msboolbit-{os.getpid()}", ctx.seed)
    with open(os.path.join(d, "Run.tla"), "w") as f:
        f.write("---- MODULE Run ----\nEXTENDS MC_MsBoolBit\n====\n")
    with open(os.path.join(d, "Run.cfg"), "w") as f:
        f.write(f'CONSTANTS\n  Mode = "gen"\n  Depth = {depth}\nINIT Init\nNEXT Next\nCHECK_DEADLOCK FALSE\n')
    recs = []
    tlc.run(d, workers=1, timeout=1200, on_json=recs.append)      # a false ASSUME (WellTyped / IdentityWithoutBool) is a TlcError
    n = 16
    futs = [ctx.get_pool().submit(_msboolbit_exec, recs[w::n]) for w in range(n)]
    res = [None] * len(recs)
    for w, fu in enumerate(futs):
        for i, r in enumerate(fu.result()):
            res[w + i * n] = r
    drift = [i for i, r in enumerate(res) if not r["agree"]]
    # binding demonstration: an expected tree with its wrapper removed must NOT match what the real function returns
    wrapped = next((r for r in recs if r["conv"]["k"] in ("eqtrue", "casebit")), None)
    if wrapped is not None and _msboolbit_exec([dict(wrapped, conv=wrapped["conv"]["a"][0])])[0]["agree"]:
        raise tlc.TlcError("MC_MsBoolBit canary: a tree without its bool / bit wrapper was accepted as the result of convert_bool_bit")
    for i, r in enumerate(res):
        if r["build"]:
            ctx.failures.append(dict(clause="dialect-internal", backend="mssql", step=0, tainted=False, src=["t"], srcidx=0, exc=r["build"].split(":")[0],
                                     detail=f"SQL Server: build_query of an expression of the bool / bit model raised {r['build']}",
                                     moves=[dict(v="mutate" if recs[i]["want"] == "bit" else "filter", i=1)], heap_obs=[], beh=recs[i]))
    ctx.extra.setdefault("mssql_bool_bit", {})[f"depth={depth}"] = dict(
        expressions=len(recs) // 2, rewrites_well_typed_in_model=len(recs), real_rewrite_matches_transcription=len(recs) - len(drift), drift=len(drift), canary_rejected=wrapped is not None,
        drift_examples=[dict(e=recs[i]["e"], want=recs[i]["want"], err=res[i]["err"]) for i in drift[:3]],
        note="drift is reported, not judged: C19 only requires that build_query succeeds; the typing judgement of the model stands in for a SQL Server")
    ctx.behaviours += len(recs)
    ctx.replay_stats["steps_new"] = ctx.replay_stats.get("steps_new", 0) + len(recs)
    ctx.replay_stats["nontrivial"] = ctx.replay_stats.get("nontrivial", 0) + len(recs)
    ctx.tlc_runs.append(dict(profile="msboolbit", states=0, distinct=0, configurations=len(recs), mode="TLC checks the rewrite's typing on every expression and emits the expected trees"))
    return d


def _cachegraph_exec(args):
    """worker: executes transitions of the complete metadata graph (MC_CacheGraph) on real tables (Polars, one row).
    A representative of a source state is built by replaying its BFS path from the source table."""
    src, parents, trans = args
    import polars as pl
    import pydiverse.transform as pdt
    from pydiverse.transform import alias, arrange, drop, filter, group_by, mutate, rename, select, slice_head, summarize, ungroup

    base_df = pl.DataFrame({n: [i + 1] for i, n in enumerate(src)})
    reps = {}

    def key(s):
        return json.dumps(s, sort_keys=True)

    def apply(t, verb, a):
        first = next(iter(t))
        if verb == "select":
            return t >> select(*[t[n] for n in a])
        if verb == "drop":
            return t >> drop(*[t[n] for n in a])
        if verb == "rename":
            return t >> rename({o: n for o, n in a})
        if verb == "mutate":
            return t >> mutate(**{n: first + (i + 1) for i, n in enumerate(a)})
        if verb == "filter":
            return t >> filter(first == first)
        if verb == "arrange":
            return t >> arrange(first)
        if verb == "slice_head":
            return t >> slice_head(3)
        if verb == "group_by":
            return t >> group_by(*[t[n] for n in a])
        if verb == "group_by_add":
            return t >> group_by(*[t[n] for n in a], add=True)
        if verb == "ungroup":
            return t >> ungroup()
        if verb == "summarize":
            return t >> summarize(**{n: first.max() for n in a})
        if verb == "alias":
            return t >> alias(keep_col_refs=True)
        raise ValueError(verb)

    def rep(k):
        if k in reps:
            return reps[k]
        if parents[k] is None:
            reps[k] = pdt.Table(base_df, name="t")
        else:
            pk, verb, a = parents[k]
            reps[k] = apply(rep(pk), verb, a)
        return reps[k]

    def meta(t):
        c = t._cache
        return dict(names=list(c.name_to_uuid.keys()), part=[c.uuid_to_name.get(u, "?hidden") for u in c.partition_by],
                    lim=-1 if c.limit is None else int(c.limit), ngrp=1 if len(c.group_by) > 0 else 0, filt=bool(c.is_filtered), summ=bool(c.is_summarized))

    bad = []
    n = 0
    for tr in trans:
        n += 1
        try:
            t = rep(key(tr["s"]))
            r = apply(t, tr["verb"], tr["args"])
            got = meta(r)
            want = {k: tr["t"][k] for k in ("names", "part", "lim", "ngrp", "filt", "summ")}
            if got != want:
                bad.append(dict(tr=tr, got=got, why="metadata"))
        except Exception as e:  # noqa: BLE001
            bad.append(dict(tr=tr, got=None, why=f"raised {type(e).__name__}: {str(e)[:120]}"))
    return n, bad[:50], len(bad)


def phase_cachegraph(ctx, phase):
    """the complete reachable graph of the metadata plane (MC_CacheGraph.tla): invariants for verb sequences of any length,
    and every transition executed on the real code"""
    src = phase.get("src", ["a", "b", "c"])
    new = phase.get("new", ["x"])
    d = tlc.prepare(f"{ctx.prop}-cachegraph-{os.getpid()}", ctx.seed)
    with open(os.path.join(d, "Run.tla"), "w") as f:
        f.write("---- MODULE Run ----\nEXTENDS MC_CacheGraph\nSrcDef == " + tlc.tla_lit(src) + "\nNewDef == {" + ", ".join(tlc.tla_lit(x) for x in new) + "}\n====\n")
    with open(os.path.join(d, "Run.cfg"), "w") as f:
        f.write("CONSTANTS\n  Src <- SrcDef\n  NewNames <- NewDef\nINIT Init\nNEXT Next\nCHECK_DEADLOCK FALSE\nINVARIANT NamesDistinct\nINVARIANT NonEmpty\n"
                "INVARIANT GroupsVisible\nPROPERTY SummarizedKeepsFlag\nPROPERTY FilteredKeepsFlag\n")
    trans = []
    res = tlc.run(d, workers=1, timeout=phase.get("timeout", 900), on_json=trans.append)
    if res["violations"]:
        raise tlc.TlcError("MC_CacheGraph: an invariant of the metadata plane is violated:\n" + "\n".join(res.get("errctx", []) + res["log"][-30:]))

    def key(s):
        return json.dumps(s, sort_keys=True)

    init = dict(names=src, part=[], lim=-1, ngrp=0, filt=False, summ=False)
    parents = {key(init): None}
    for tr in trans:            # BFS order (one worker): the first transition into a state gives its path
        kt = key(tr["t"])
        if kt not in parents:
            parents[kt] = (key(tr["s"]), tr["verb"], tr["args"])
    stride = phase.get("stride", 1)
    todo = trans[::stride]
    n = 16
    futs = [ctx.get_pool().submit(_cachegraph_exec, (src, parents, todo[w::n])) for w in range(n)]
    done = nbad = 0
    for fu in futs:
        k, bad, nb = fu.result()
        done += k
        nbad += nb
        for b in bad[:10]:
            tr = b["tr"]
            ctx.failures.append(dict(clause="meta", backend="polars", step=0, tainted=False, src=["graph"], srcidx=0,
                                     detail=f"metadata graph: state {tr['s']} --{tr['verb']}({tr['args']})--> expected {tr['t']}, code: {b['got']} {b['why']}",
                                     moves=[dict(v=tr["verb"].replace("_add", ""), i=1)], heap_obs=[], beh=b))
    ctx.extra["cache_graph"] = dict(states=res["distinct"], transitions=len(trans), transitions_executed=done, disagreeing=nbad,
                                    complete=not res["timed_out"], universe=dict(source=src, new_names=new),
                                    invariants=["NamesDistinct", "NonEmpty", "GroupsVisible", "SummarizedKeepsFlag", "FilteredKeepsFlag"])
    ctx.tlc_states += res["states"]
    ctx.tlc_distinct += res["distinct"]
    ctx.tlc_runs.append(dict(profile="cache-graph", states=res["states"], distinct=res["distinct"], mode="bfs to the fixed point (complete graph)", wall=round(res["wall"], 1)))
    ctx.behaviours += done
    ctx.replay_stats["steps_new"] = ctx.replay_stats.get("steps_new", 0) + done
    ctx.replay_stats["nontrivial"] = ctx.replay_stats.get("nontrivial", 0) + done
    return d
