"""Turn the specification's moves and expressions into real pydiverse.transform calls.

Everything here talks to the implementation only through its public API
(`pydiverse.transform`, `pydiverse.transform.extended`), with the single exception of
`tbl._cache.partition_by` / `tbl._ast`, which the projection reads (never writes).
"""
from __future__ import annotations

import os
import sys
import warnings

os.environ.setdefault("POLARS_MAX_THREADS", "1")

import polars as pl  # noqa: E402
import sqlalchemy as sqa  # noqa: E402

import pydiverse.transform as pdt  # noqa: E402
from pydiverse.transform.extended import (  # noqa: E402
    C,
    alias,
    arrange,
    build_query,
    collect,
    columns,
    cross_join,
    drop,
    export,
    filter,
    full_join,
    group_by,
    inner_join,
    join,
    left_join,
    mutate,
    rename,
    select,
    slice_head,
    summarize,
    ungroup,
    union,
)

from . import sources as S  # noqa: E402

warnings.filterwarnings("ignore")

# replay option "alt": the same moves through the alternative documented API forms - left_join / inner_join / full_join instead of
# join(how=), explicit pdt.lit(..) instead of python literals, the method aliases key.rank() / key.dense_rank() instead of
# pdt.rank(arrange=key), x.is_in([..]) / coalesce with a literal as pdt.lit, filter(p, q) as one conjunction
SRC_FORM = "eager"      # how the Polars-side source tables are handed to pdt.Table: "eager" DataFrame, "lazy_ns", "pandas" (replay option `src`)
ALT_FORMS = False

PL_TYPES = {"int32": pl.Int32, "int8": pl.Int8, "uint16": pl.UInt16, "uint64": pl.UInt64, "float32": pl.Float32, "int": pl.Int64, "bool": pl.Boolean, "str": pl.String, "float": pl.Float64, "date": pl.Date, "datetime": pl.Datetime("us")}
PDT_TYPES = {"int": pdt.Int64, "bool": pdt.Bool, "str": pdt.String, "float": pdt.Float64, "date": pdt.Date, "datetime": pdt.Datetime}


def assert_repo_import():
    """The checks must exercise /repo's working tree."""
    f = pdt.__file__
    want = os.environ.get("VERIF_REPO_SRC", "/repo/src")
    if not os.path.realpath(f).startswith(os.path.realpath(want)):
        print(f"harness error: pydiverse.transform imported from {f}, expected under {want}", file=sys.stderr)
        sys.exit(2)


# ------------------------------------------------------------------------------------------
# source tables


def source_frame(src: dict) -> pl.DataFrame:
    names = [n for n, _ in src["cols"]]
    schema = {n: PL_TYPES[t] for n, t in src["cols"]}
    def conv(v):
        import datetime as _dt

        if isinstance(v, tuple) and v and v[0] == "date":
            return _dt.date(*v[1:])
        if isinstance(v, tuple) and v and v[0] == "dt":
            return _dt.datetime(*v[1:])
        return v[0] / v[1] if isinstance(v, tuple) else v

    cols = {n: [conv(row[i]) for row in src["rows"]] for i, n in enumerate(names)}
    return pl.DataFrame(cols, schema=schema)


class Backends:
    """Per-process factory of source tables for each backend."""

    def __init__(self, seed: int):
        self.seed = seed
        self.srcs = S.all_sources(seed)
        self.frames = [source_frame(s) for s in self.srcs]
        self.engine = sqa.create_engine("sqlite://", poolclass=sqa.pool.StaticPool)
        self.sqa_tables = {}
        for s, df in zip(self.srcs, self.frames):
            self._write(s["name"], df)

    def _write(self, name: str, df: pl.DataFrame):
        df.write_database(name, self.engine, if_table_exists="replace")
        self.sqa_tables[name] = sqa.Table(name, sqa.MetaData(), autoload_with=self.engine)

    def add_frame(self, name: str, df: pl.DataFrame):
        self._write(name, df)

    def table(self, backend: str, si: int, name: str | None = None):
        s = self.srcs[si]
        if backend in ("postgres", "mssql"):
            from . import dialects as D

            if not hasattr(self, "dialect_engines"):
                self.dialect_engines = D.engines()
            return pdt.Table(D.sqa_table(s["name"], s["cols"]), pdt.SqlAlchemy(self.dialect_engines[backend]), name=name or s["name"])
        if backend == "polars":
            if SRC_FORM == "lazy_ns":
                # the documented other input forms: a LazyFrame, Datetime columns in another time unit (lossless: nanoseconds)
                df = self.frames[si]
                dts = [c for c, t in df.schema.items() if isinstance(t, pl.Datetime)]
                return pdt.Table(df.with_columns([pl.col(c).dt.cast_time_unit("ns") for c in dts]).lazy(), name=name or s["name"])
            if SRC_FORM == "pandas":
                return pdt.Table(self.frames[si].to_pandas(use_pyarrow_extension_array=True), name=name or s["name"])
            return pdt.Table(self.frames[si], name=name or s["name"])
        return pdt.Table(self.sqa_tables[s["name"]], pdt.SqlAlchemy(self.engine), name=name or s["name"])

    def checksum(self):
        """Content of all source frames / SQL tables (C10: sources never change)."""
        out = []
        for s, df in zip(self.srcs, self.frames):
            out.append(("pl", s["name"], df.hash_rows().to_list() if df.height else []))
        with self.engine.connect() as conn:
            for s in self.srcs:
                rows = conn.execute(sqa.text(f'SELECT * FROM "{s["name"]}"')).fetchall()
                out.append(("sql", s["name"], [tuple(r) for r in rows]))
        return out


# ------------------------------------------------------------------------------------------
# expressions


class MissingRef(Exception):
    """The behaviour names a column identity this backend holds no reference for."""


def lit_value(e):
    v = e["v"]
    if v == "NULL":
        return None
    if isinstance(v, dict) and "n" in v:
        return v["n"] / v["d"]
    if e.get("ty") == "str" and isinstance(v, list):
        return "".join(chr(c) for c in v)
    if e.get("ty") == "date":
        import datetime as _dt

        return _dt.date(v["y"], v["m"], v["d"])
    if e.get("ty") == "datetime":
        import datetime as _dt

        return _dt.datetime(v["y"], v["m"], v["d"], v["H"], v["M"], v["S"], v["us"])
    return v


def is_lit(e):
    return e["k"] == "lit"


class ExprBuilder:
    """Builds a real ColExpr from the specification's surface syntax.

    colmap: ColId -> Col (the references this run holds).  pool: optional dict id -> built
    expression so that one specification-level expression object is ONE python object."""

    def __init__(self, colmap: dict, pool: dict | None = None):
        self.colmap = colmap
        self.pool = pool    # json key -> built expression: ONE object per specification-level expression

    def ref(self, cid: int):
        if cid not in self.colmap:
            raise MissingRef(cid)
        return self.colmap[cid]

    def colref(self, r):
        """column argument of select/drop/group_by/rename: Col, C.name or bare string"""
        if r["k"] == "col":
            return self.ref(r["id"])
        if r["k"] == "cname":
            return C[r["n"]]
        if r["k"] == "str":
            return r["n"]
        raise ValueError(r)

    def order(self, o):
        e = self.build(o["e"], top=True)
        if o["desc"]:
            e = e.descending()
        if o["nl"] == "first":
            e = e.nulls_first()
        elif o["nl"] == "last":
            e = e.nulls_last()
        return e

    def part(self, e):
        if e.get("pk") == "ids":
            return [self.build(p, top=True) for p in e["part"]]
        return None

    def build(self, e, top: bool = False):
        """top=True: the result must be a ColExpr (wrap python literals with pdt.lit)."""
        if self.pool is not None and top and e["k"] not in ("col", "lit"):
            import json as _json

            from . import findings as _F

            refs = sorted({x["id"] for x in _F.walk(e) if x.get("k") == "col"})
            # one object per (expression, the concrete columns its references denote in this behaviour)
            key = _json.dumps(e, sort_keys=True) + "|" + ",".join(str(getattr(self.colmap.get(c), "_uuid", "?")) for c in refs)
            if key not in self.pool:
                self.pool[key] = self._build(e, top)
            return self.pool[key]
        return self._build(e, top)

    def _build(self, e, top: bool = False):
        k = e["k"]
        if k == "col":
            return self.ref(e["id"])
        if k == "cname":
            return C[e["n"]]
        if k == "lit":
            v = lit_value(e)
            if e.get("typed"):
                return pdt.lit(v, PDT_TYPES[e["ty"]]())
            return pdt.lit(v) if top else v
        if k == "mark":
            x = self.build(e["a"][0], top=True)
            return getattr(x, e["op"])()
        if k == "cast":
            if e.get("g") and e["to"] == "float":
                return self.build(e["e"], top=True).cast(pdt.Float())
            if e.get("ns"):
                return self.build(e["e"], top=True).cast(PDT_TYPES[e["to"]](), strict=False)
            return self.build(e["e"], top=True).cast(PDT_TYPES[e["to"]]())
        if k == "map":
            x = self.build(e["e"], top=True)
            mapping = {}
            for ks, v in zip(e["ks"], e["vs"]):
                key = tuple(lit_value(q) for q in ks) if len(ks) > 1 else lit_value(ks[0])
                mapping[key] = self.build(v)
            if e["d"]:
                return x.map(mapping, default=self.build(e["d"][0], top=True))
            return x.map(mapping)
        if k == "case":
            cs = e["cs"]
            if self.pool is not None and len(cs) >= 2:
                # extend the (shared, pooled) object of the shorter case expression, as a user who keeps
                # `first = when(c1).then(v1)` around and derives several expressions from it would
                expr = self.build(dict(e, cs=cs[:-1], d=[]), top=True)
                expr = expr.when(self.build(cs[-1]["c"], top=True)).then(self.build(cs[-1]["v"]))
            else:
                expr = pdt.when(self.build(cs[0]["c"], top=True)).then(self.build(cs[0]["v"]))
                for c in cs[1:]:
                    expr = expr.when(self.build(c["c"], top=True)).then(self.build(c["v"]))
            if e["d"]:
                expr = expr.otherwise(self.build(e["d"][0]))
            return expr
        if k == "agg":
            kw = {}
            p = self.part(e)
            if p is not None:
                kw["partition_by"] = p
            if e["f"]:
                kw["filter"] = self.build(e["f"][0], top=True) if len(e["f"]) == 1 else [self.build(x, top=True) for x in e["f"]]
            if e["op"] == "len":
                return pdt.count(**kw)
            x = self.build(e["a"][0], top=True)
            return getattr(x, e["op"])(**kw)
        if k == "win":
            kw = {}
            p = self.part(e)
            if p is not None:
                kw["partition_by"] = p
            if e["ord"]:
                kw["arrange"] = [self.order(o) for o in e["ord"]]
            op = e["op"]
            if op == "row_number":
                return pdt.row_number(**kw)
            if ALT_FORMS and op in ("rank", "dense_rank") and len(e["ord"]) == 1:
                key = self.order(e["ord"][0])
                return getattr(key, op)(**({"partition_by": kw["partition_by"]} if "partition_by" in kw else {}))
            if op == "rank":
                return pdt.rank(**kw)
            if op == "dense_rank":
                return pdt.dense_rank(**kw)
            x = self.build(e["a"][0], top=True)
            if op == "shift":
                args = [(pdt.lit(1) + (e["n"] - 1)) if e.get("nx") else e["n"]]      # nx: the offset as a constant expression
                if e["fill"]:
                    args.append(self.build(e["fill"][0]))
                return x.shift(*args, **kw)
            if op == "cum_sum":
                if "arrange" not in kw:
                    kw["arrange"] = []          # arrange= is a required keyword of cum_sum; the empty list = the current order
                return x.cum_sum(**kw)
            raise ValueError(op)
        if k == "fn":
            return self.fn(e)
        raise ValueError(k)

    def fn(self, e):
        op = e["op"]
        raw = e["a"]
        # the first operand must be a ColExpr so that python dispatches to the DSL
        a = [self.build(raw[0], top=True)] + [self.build(x, top=ALT_FORMS) for x in raw[1:]]
        binops = {
            "add": lambda x, y: x + y, "sub": lambda x, y: x - y, "mul": lambda x, y: x * y,
            "truediv": lambda x, y: x / y, "floordiv": lambda x, y: x // y, "mod": lambda x, y: x % y,
            "eq": lambda x, y: x == y, "ne": lambda x, y: x != y, "lt": lambda x, y: x < y,
            "le": lambda x, y: x <= y, "gt": lambda x, y: x > y, "ge": lambda x, y: x >= y,
            "and": lambda x, y: x & y, "or": lambda x, y: x | y, "xor": lambda x, y: x ^ y,
        }
        if op in binops:
            if is_lit(raw[0]) and not is_lit(raw[1]) and not raw[0].get("typed"):
                # literal (op) column: python dispatches to the reflected operator
                return binops[op](lit_value(raw[0]), self.build(raw[1], top=True))
            return binops[op](a[0], a[1])
        if op == "neg":
            return -a[0]
        if op == "pos":
            return +a[0]
        if op == "not":
            return ~a[0]
        if op in ("abs", "floor", "ceil", "is_null", "is_not_null", "is_nan", "is_not_nan", "is_inf", "is_not_inf"):
            return getattr(a[0], op)()
        if op == "str_starts_with":
            return a[0].str.starts_with(a[1])
        if op == "str_ends_with":
            return a[0].str.ends_with(a[1])
        if op == "str_contains":
            return a[0].str.contains(a[1], allow_regex=False)
        if op == "str_replace_all":
            return a[0].str.replace_all(a[1], a[2])
        if op == "str_len":
            return a[0].str.len()
        if op in ("str_upper", "str_lower", "str_strip"):
            return getattr(a[0].str, op[4:])()
        if op == "str_slice":
            return a[0].str.slice(a[1], a[2])
        if op == "pow":
            return a[0] ** a[1]
        if op == "round":
            return a[0].round(a[1])
        if op in ("exp", "log", "log10", "sqrt", "cbrt", "sin", "cos", "tan", "asin", "acos", "atan"):
            return getattr(a[0], op)()
        if op.startswith("dt_"):
            return getattr(a[0].dt, op[3:])()
        if op == "fill_null":
            return a[0].fill_null(a[1])
        if op == "is_in":
            return a[0].is_in(*a[1:])
        if op == "clip":
            return a[0].clip(a[1], a[2])
        if op == "coalesce":
            return pdt.coalesce(*a)
        if op == "hmax":
            return pdt.max(*a)
        if op == "hmin":
            return pdt.min(*a)
        if op == "hsum":
            return pdt.sum(*a)
        if op == "hany":
            return pdt.any(*a)
        if op == "hall":
            return pdt.all(*a)
        raise ValueError(op)


# ------------------------------------------------------------------------------------------
# moves


class ChainTap:
    """Stands in for the table on the left of `>>`: hands the verb call (the table-less Pipeable) to `sink` and pipes as usual.
    opts['chain']: the replayer composes these calls into verb chains WITHOUT a table (`chain >> verb(...)`), keeps one chain
    object per behaviour prefix, extends it once per child prefix and applies it to the source table."""

    def __init__(self, table, sink):
        self.table, self.sink = table, sink

    def __rshift__(self, rhs):
        self.sink.append(rhs)
        return self.table >> rhs


def apply_move(m: dict, heap: list, colmap: dict, pool: dict | None = None, tap: list | None = None):
    """Apply one move of the specification to the real tables in `heap` (0-based list whose
    index k holds the table for the specification's heap index k+1).  Returns the new table
    (or whatever the call returns).  Exceptions propagate to the caller."""
    b = ExprBuilder(colmap, pool)
    v = m["v"]
    t = heap[m["i"] - 1]
    if t is None:
        raise MissingRef(("table", m["i"]))
    if tap is not None and v not in ("transfer", "getname"):
        t = ChainTap(t, tap)
    if v == "mutate":
        return t >> mutate(**{kv["n"]: b.build(kv["e"], top=True) for kv in m["kv"]})
    if v == "summarize":
        return t >> summarize(**{kv["n"]: b.build(kv["e"], top=True) for kv in m["kv"]})
    if v == "filter":
        return t >> filter(*[b.build(p, top=True) for p in m["ps"]])
    if v == "select":
        return t >> select(*[b.colref(c) for c in m["cs"]])
    if v == "drop":
        return t >> drop(*[b.colref(c) for c in m["cs"]])
    if v == "rename":
        return t >> rename({b.colref(x["c"]): x["n"] for x in m["m"]})
    if v == "arrange":
        return t >> arrange(*[b.order(o) for o in m["os"]])
    if v == "slice_head":
        return t >> slice_head(m["n"], offset=m["k"])
    if v == "group_by":
        return t >> group_by(*[b.colref(c) for c in m["cs"]], add=m["add"])
    if v == "ungroup":
        return t >> ungroup()
    if v == "alias":
        if m.get("keep"):
            return t >> alias(m.get("name"), keep_col_refs=True)
        return t >> alias(m.get("name"))
    if v == "collect":
        return t >> collect(keep_col_refs=m.get("keep", True))
    if v in ("join", "cross_join"):
        r = heap[m["j"] - 1]
        if r is None:
            raise MissingRef(("table", m["j"]))
        kw = {}
        if m.get("suffix"):
            kw["suffix"] = m["suffix"]
        if v == "cross_join":
            return t >> cross_join(r, **kw)
        on = [x["n"] if x["k"] == "str" else b.build(x, top=True) for x in m["on"]]
        if ALT_FORMS and m["how"] in ("left", "inner", "full"):
            fn = {"left": left_join, "inner": inner_join, "full": full_join}[m["how"]]
            return t >> fn(r, on if len(on) != 1 else on[0], **kw)
        if pool is not None:
            # the caller keeps ONE list object for this `on` argument (fingerprinted before / after every call: C10)
            import json as _json

            key = "onlist|" + _json.dumps(m["on"], sort_keys=True) + "|" + ",".join(str(getattr(x, "_fn_id", x)) for x in on)
            if key not in pool:
                from . import immut as _IM

                pool[key] = on
                pool.setdefault("__created__", {})[key] = _IM.fp_expr(list(on))
            on = pool[key]
        elif len(on) == 1:
            on = on[0]
        return t >> join(r, on, m["how"], **kw)
    if v == "transfer":
        s = heap[m["j"] - 1]
        if s is None:
            raise MissingRef(("table", m["j"]))
        return pdt.transfer_col_references(t, s)
    if v == "getname":
        return t[b.ref(m["c"])].name
    if v == "union":
        r = heap[m["j"] - 1]
        if r is None:
            raise MissingRef(("table", m["j"]))
        if tap is not None:
            t = t.table
        if ALT_FORMS:       # the documented two-table form union(left, right, distinct=...)
            return union(r, t, distinct=m["distinct"]) if m.get("swap") else union(t, r, distinct=m["distinct"])
        if m.get("swap"):
            return r >> union(t, distinct=m["distinct"])
        return t >> union(r, distinct=m["distinct"])
    raise ValueError(v)
