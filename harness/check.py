"""./check <ID> [--tier quick|thorough] [--replay PATH]

Exit 0: the property held on everything explored (KNOWN-FINDING lines may be printed);
exit 1: `VIOLATION property=<id> replay=<path>` for every failure not listed in known_findings.json;
exit 2: the machinery itself failed (TLC error, harness exception)."""
from __future__ import annotations

import argparse
import concurrent.futures as cf
import json
import math
import multiprocessing as mp
import os
import sys
import time
import traceback

from . import findings as F
from . import tlc
from .registry import CHECKS, PROFILES

VERIF = os.path.dirname(os.path.dirname(os.path.abspath(__file__)))
OUT = os.environ.get("VERIF_OUT", VERIF)      # mutant runs redirect evidence / replay files
EVID = os.path.join(OUT, "evidence")
REPLAYS = os.path.join(OUT, "replays")

FLUSH_AT = 48000


class Ctx:
    def __init__(self, prop, tier, seed):
        self.prop, self.tier, self.seed = prop, tier, seed
        self.t0 = time.time()
        self.pool = None
        self.futures = []
        self.tlc_states = 0
        self.tlc_distinct = 0
        self.tlc_runs = []
        self.behaviours = 0
        self.samples = []
        self.replay_stats = {}
        self.failures = []
        self.extra = {}
        self.exhaustive = True
        self.notes = []

    def get_pool(self):
        if self.pool is None:
            self.pool = cf.ProcessPoolExecutor(max_workers=int(os.environ.get("VERIF_WORKERS", "16")),
                                               mp_context=mp.get_context("spawn"))
        return self.pool


def beh_key(b):
    return (b["src"], [json.dumps(s["m"], sort_keys=True) for s in b["steps"]])


def flush(ctx: Ctx, buf: list, d: str, backends, opts, final=False):
    if not buf:
        return
    buf.sort(key=beh_key)
    n = len(buf)
    nchunks = max(1, min(16, math.ceil(n / 150)))
    size = math.ceil(n / nchunks)
    for c in range(nchunks):
        part = buf[c * size:(c + 1) * size]
        if not part:
            continue
        path = os.path.join(d, f"chunk_{len(ctx.futures):05d}.ndjson")
        with open(path, "w") as f:
            for b in part:
                f.write(json.dumps(b) + "\n")
        from .replay import replay_file

        ctx.futures.append(ctx.get_pool().submit(replay_file, (path, ctx.seed, list(backends), opts)))
    buf.clear()


def run_gen_phase(ctx: Ctx, phase: dict):
    """TLC generates behaviours of a profile; every one is replayed on the real code."""
    prof = dict(PROFILES[phase["profile"]])
    prof.update(phase.get("override", {}))
    ctx.phase_no = getattr(ctx, "phase_no", 0) + 1
    run_id = f"{ctx.prop}-{phase['profile']}-{ctx.phase_no}-{os.getpid()}"
    d = tlc.prepare(run_id, ctx.seed)
    defs = dict(prof["defs"])
    defs["Emit"] = True
    tlc.write_model(d, prof["base"], defs, prof["overrides"], invariants=prof.get("invariants", ()),
                    properties=prof.get("properties", ()), constraint=prof.get("constraint"))
    buf = []
    backends = phase.get("backends", ("polars", "sqlite"))
    opts = phase.get("opts", {})
    count = [0]

    def on_json(b):
        count[0] += 1
        if len(ctx.samples) < 2 and count[0] % 97 == 1:
            ctx.samples.append(dict(profile=phase["profile"], src=b["srcnames"],
                                    moves=[s["m"] for s in b["steps"]],
                                    predicted=[s.get("err") or s.get("val") or dict(names=s["o"]["names"], rows=s["o"]["rows"][:3])
                                               for s in b["steps"]]))
        buf.append(b)
        if len(buf) >= FLUSH_AT:
            flush(ctx, buf, d, backends, opts)

    kw = dict(timeout=phase.get("timeout", prof.get("timeout", 300)), on_json=on_json, coverage=False)
    if prof.get("simulate"):
        nsim = phase.get("num", prof.get("num", 1000))
        kw.update(simulate=f"num={max(1, nsim // 16)}", depth=prof["sim_depth"], seed=ctx.seed + 1)
    res = tlc.run(d, **kw)
    flush(ctx, buf, d, backends, opts, final=True)
    if res["violations"]:
        raise tlc.TlcError("model-level property violated in profile %s:\n%s" % (phase["profile"], "\n".join(res.get("errctx", []) + res["log"][-40:])))
    if res["timed_out"]:
        ctx.exhaustive = False
        ctx.notes.append(f"TLC phase {phase['profile']} stopped at its time budget")
    if prof.get("simulate"):
        ctx.exhaustive = False
    ctx.tlc_states += res["states"]
    ctx.tlc_distinct += res["distinct"]
    ctx.behaviours += count[0]
    ctx.tlc_runs.append(dict(profile=phase["profile"], states=res["states"], distinct=res["distinct"],
                             behaviours=count[0], wall=round(res["wall"], 1), mode="simulate" if prof.get("simulate") else "bfs"))
    return d


def collect(ctx: Ctx):
    for fut in ctx.futures:
        stats, fails = fut.result()
        for k, v in stats.items():
            ctx.replay_stats[k] = ctx.replay_stats.get(k, 0) + v
        ctx.failures.extend(fails)
    ctx.futures = []


def classify(ctx: Ctx, spec: dict):
    """failures -> (violations, known) after clause filter, known-findings match and de-duplication"""
    known_entries = F.load_known()
    clauses = spec["clauses"]
    seen = {}
    for f in ctx.failures:
        if f["clause"] not in clauses or f.get("tainted"):
            continue
        if f["clause"] == "export-error" and "export_error_backends" in spec and f["backend"] not in spec["export_error_backends"]:
            continue
        if "backends" in spec and f["backend"] not in spec["backends"] and f["backend"] not in ("both", "code") \
                and f["clause"] != "polars-subquery":
            continue
        last, hist = F.behaviour_tags(f, f.get("heap_obs", []))
        sig = F.signature(ctx.prop, f, last, hist)
        if sig in seen:
            seen[sig]["count"] += 1
            continue
        entry = next((e for e in known_entries if F.matches(e, ctx.prop, f, last, hist)), None)
        seen[sig] = dict(fail=f, last=sorted(last), hist=sorted(hist), count=1, known=entry, sig=sig)
    viol = [v for v in seen.values() if v["known"] is None]
    known = [v for v in seen.values() if v["known"] is not None]
    return viol, known


def write_replay(prop, item):
    os.makedirs(REPLAYS, exist_ok=True)
    path = os.path.join(REPLAYS, f"{prop}-{F.sig_hash(item['sig'])}.json")
    f = item["fail"]
    with open(path, "w") as fh:
        json.dump(dict(property=prop, clause=f["clause"], backend=f["backend"], step=f["step"], detail=f["detail"],
                       expected=f.get("expected"), actual=f.get("actual"), tags_last=item["last"], tags_history=item["hist"],
                       occurrences=item["count"], behaviour=f.get("beh")), fh, indent=1, default=str)
    return path


def write_evidence(ctx: Ctx, spec: dict, nviol: int, known, extra_cov=None):
    os.makedirs(EVID, exist_ok=True)
    rs = ctx.replay_stats
    cov = dict(
        states=max(1, ctx.tlc_distinct),
        transitions=max(1, ctx.tlc_states),
        traces_validated_against_impl=ctx.behaviours,
        samples=ctx.samples[:4] or [dict(note="no behaviour generated")],
        evaluations=rs.get("steps_new", 0),
        distinct_nontrivial=rs.get("nontrivial", rs.get("steps_new", 0)),
        rule=spec.get("rule", "evaluations = distinct (source, move sequence) prefixes of the TLC-generated behaviours, each executed once per backend and "
                              "compared with the specification's predicted observation; a prefix is non-trivial if its last step was compared "
                              "cell by cell against a non-empty predicted table on at least one backend, or an exception class was compared, or "
                              "an observation value (name lookup / equivalence pair) was compared - steps whose data is undetermined (section 4) "
                              "or whose predicted table is empty are counted as trivial"),
        exhaustive=ctx.exhaustive,
        tlc_runs=ctx.tlc_runs,
        replay=rs,
        failures_observed_all_clauses=len(ctx.failures),
        known_findings_matched=[dict(id=k["known"]["id"], occurrences=k["count"]) for k in known],
        notes=ctx.notes,
    )
    cov.update(ctx.extra)
    cov.update(extra_cov or {})
    ev = dict(property_id=ctx.prop, tier=ctx.tier, seed=ctx.seed, level=spec["level"], coverage=cov,
              assumptions=spec.get("assumptions", []), wall_s=round(time.time() - ctx.t0, 1), violations=nviol)
    with open(os.path.join(EVID, f"{ctx.prop}.json"), "w") as f:
        json.dump(ev, f, indent=1, default=str)


def run_check(prop: str, tier: str, seed: int) -> int:
    spec = CHECKS[prop]
    ctx = Ctx(prop, tier, seed)
    dirs = []
    try:
        for phase in spec["phases"][tier]:
            kind = phase.get("kind", "gen")
            if kind == "gen":
                dirs.append(run_gen_phase(ctx, phase))
            else:
                from . import phases as P

                dirs.append(getattr(P, "phase_" + kind)(ctx, phase))
        collect(ctx)
    finally:
        if ctx.pool is not None:
            ctx.pool.shutdown(wait=True, cancel_futures=True)
        for d in dirs:
            if d:
                tlc.cleanup(d)
    viol, known = classify(ctx, spec)
    kagg = {}
    for k in known:
        kagg.setdefault(k["known"]["id"], [k["known"], 0])[1] += k["count"]
    for kid, (entry, n) in sorted(kagg.items()):
        print(f"KNOWN-FINDING: property={prop} {kid}: {entry['description']} ({n} occurrence(s))")
    if os.path.isdir(REPLAYS):
        for fn in os.listdir(REPLAYS):
            if fn.startswith(prop + "-"):
                os.remove(os.path.join(REPLAYS, fn))
    viol.sort(key=lambda v: (len(v["fail"]["moves"]), -v["count"]))
    for v in viol[20:300]:
        write_replay(prop, v)
    if len(viol) > 20:
        print(f"{len(viol)} distinct violation signatures; the 20 shortest are listed")
    for v in viol[:20]:
        path = write_replay(prop, v)
        f = v["fail"]
        print(f"VIOLATION property={prop} replay={path}")
        print(f"  clause={f['clause']} backend={f['backend']} step={f['step']} occurrences={v['count']}: {f['detail'][:300]}")
        print(f"  moves: {json.dumps(f['moves'])[:600]}")
    if viol and os.environ.get("VERIF_SUMMARY"):
        from collections import Counter
        cnt = Counter()
        for v in viol:
            f = v["fail"]
            cnt[(f["clause"], f["backend"], f.get("exc") or "", " ".join(t for t in v["last"] if not t.startswith(("op:", "lit:", "arrange:"))))] += v["count"]
        for k, n in sorted(cnt.items(), key=lambda x: -x[1]):
            print("  SUMMARY", n, k)
    write_evidence(ctx, spec, len(viol), known)
    rs = ctx.replay_stats
    print(f"[{prop} {tier}] TLC distinct states {ctx.tlc_distinct}, behaviours replayed {ctx.behaviours}, "
          f"distinct steps executed {rs.get('steps_new', 0)}, exports {rs.get('exports', 0)}, "
          f"violations {len(viol)}, known {len(known)}, wall {time.time() - ctx.t0:.1f}s")
    return 1 if viol else 0


def run_replay(prop: str, path: str, seed: int) -> int:
    from .replay import Replayer

    with open(path) as f:
        rec = json.load(f)
    rp = Replayer(seed)
    rp.replay(rec["behaviour"])
    spec = CHECKS[prop]
    shown = 0
    for fl in rp.failures:
        if fl["clause"] in spec["clauses"]:
            shown += 1
            print(f"clause={fl['clause']} backend={fl['backend']} step={fl['step']}: {fl['detail']}")
            if fl.get("expected") is not None:
                print("  expected:", json.dumps(fl["expected"])[:500])
                print("  actual:  ", json.dumps(fl.get("actual"), default=str)[:500])
    if shown:
        print(f"VIOLATION property={prop} replay={path}")
        return 1
    print("replay: no failing clause reproduced")
    return 0


def main():
    ap = argparse.ArgumentParser()
    ap.add_argument("prop")
    ap.add_argument("--tier", default=os.environ.get("VERIF_TIER", "quick"))
    ap.add_argument("--replay")
    a = ap.parse_args()
    seed = int(os.environ.get("VERIF_SEED", "0") or 0)
    if a.prop not in CHECKS:
        print(f"unknown property {a.prop}", file=sys.stderr)
        sys.exit(2)
    try:
        if a.replay:
            rc = run_replay(a.prop, a.replay, seed)
        else:
            rc = run_check(a.prop, a.tier if a.tier in ("quick", "thorough") else "quick", seed)
    except Exception:  # noqa: BLE001
        traceback.print_exc()
        print("machinery failure (exit 2)", file=sys.stderr)
        sys.exit(2)
    sys.exit(rc)


if __name__ == "__main__":
    main()
