"""Source tables: the single source of truth for both the TLA+ model (Sources.tla is
generated from here at check time) and the Python replayer (real Polars / SQLite tables)."""
from __future__ import annotations

import random

# column types: "int", "bool", "str", "float"
# Every source: name, cols [(name, ty)], rows (None = NULL)
FIXED = [
    dict(name="t1", cols=[("a", "int"), ("b", "int"), ("g", "int"), ("p", "bool")],
         rows=[[2, 5, 1, True], [None, 3, 1, False], [2, -3, None, None], [-1, 0, 2, True], [4, 3, None, False]]),
    # join partner: duplicate / null keys, a colliding name (b) and a private one (c)
    dict(name="t2", cols=[("a", "int"), ("b", "int"), ("c", "int")],
         rows=[[2, 1, 7], [2, 0, -2], [None, 6, 1], [5, 3, 0]]),
    # union partner of t1: same names, permuted order, overlapping rows
    dict(name="t3", cols=[("g", "int"), ("p", "bool"), ("a", "int"), ("b", "int")],
         rows=[[1, True, 2, 5], [None, None, 2, -3], [2, False, 7, 1], [1, True, 2, 5]]),
    # empty table with t1's schema
    dict(name="t4", cols=[("a", "int"), ("b", "int"), ("g", "int"), ("p", "bool")], rows=[]),
    # single row, a string key
    dict(name="t5", cols=[("a", "int"), ("b", "int"), ("g", "int"), ("p", "bool")],
         rows=[[None, 1, 3, None]]),
]


def seeded(seed: int, n: int = 2) -> list[dict]:
    """n extra sources with t1's schema whose data depends on VERIF_SEED."""
    rng = random.Random(seed)
    out = []
    for k in range(n):
        nrows = rng.choice([3, 4, 5])
        rows = []
        for _ in range(nrows):
            rows.append([
                rng.choice([None, -3, -1, 0, 1, 2, 2, 4, 7]),
                rng.choice([-3, -2, 0, 1, 3, 5, 6]),
                rng.choice([None, 1, 1, 2, 3]),
                rng.choice([None, True, False]),
            ])
        out.append(dict(name=f"r{k + 1}", cols=[("a", "int"), ("b", "int"), ("g", "int"), ("p", "bool")], rows=rows))
    return out


# sources appended AFTER the seeded ones (so that the indices of the others stay stable)
EXTRA = [
    # float column (exact binary fractions), index 8
    dict(name="tf", cols=[("a", "int"), ("f", "float"), ("p", "bool")],
         rows=[[1, (1, 2), True], [None, (-3, 4), None], [2, None, False], [-2, (5, 2), True], [2, (1, 2), False]]),
]


def value_table() -> dict:
    """index 9: every pair of the integer test values, the boolean pairs and a float column (engine F: operator tables)"""
    ints = [None, -7, -3, -2, -1, 0, 1, 2, 3, 7, 65]
    bools = [None, True, False]
    floats = [None, (-7, 4), (-1, 2), (-1, 4), (0, 1), (1, 4), (1, 2), (3, 4), (5, 2), (-5, 2), (7, 1)]
    rows = []
    r = 0
    for x in ints:
        for y in ints:
            rows.append([r + 1, x, y, bools[r % 3], bools[(r // 3) % 3], floats[(r * 7) % len(floats)]])
            r += 1
    return dict(name="tv", cols=[("rid", "int"), ("x", "int"), ("y", "int"), ("p", "bool"), ("q", "bool"), ("f", "float")], rows=rows)


SIGMA = ["a", "b", "'", '"', "\\", "%", "_", "-", ";", "/", "*", " ", "\n", "\u00e9", ".", "$", "^", "(", "[", "+", "?", "|", "{", ":"]
DIGRAPHS = ["--", "/*", "';", "\\'", "%%", "__", "$0", ".*", "a%", "_b", "\\:", " :a", ":a"]


def string_table() -> dict:
    """index 10: text data over every SQL / LIKE / regex metacharacter (C18)"""
    data = SIGMA + DIGRAPHS + ["a'b", "a%b", "a_b", "ab", "a.b", "a\\b", "", "b--a", "aab", "ba", "abab", "a(b", "x' OR '1'='1", "a;b", None]
    rows = [[i + 1, v, len(v) if v is not None else None] for i, v in enumerate(data)]
    return dict(name="ts", cols=[("rid", "int"), ("s", "str"), ("n", "int")], rows=rows)


def cast_table() -> dict:
    """index 11: boundary values for the documented casts (C17)"""
    ints = [None, 0, 1, -1, 7, -65, 1000, -1000, 999999]
    floats = [None, (0, 1), (1, 2), (-1, 2), (7, 4), (-7, 4), (5, 2), (-5, 2), (1000, 1), (-999, 1)]
    bools = [None, True, False]
    nums = [None, "0", "12", "-7", "007", "+5", "1000", "-0", "65"]
    fnums = [None, "0.5", "-0.25", "3.5", "10.0", "12", "-7", "007.50", "+2.5"]
    dates = [None, ("date", 1970, 1, 1), ("date", 2000, 2, 29), ("date", 2024, 12, 31), ("date", 1999, 9, 9)]
    dts = [None, ("dt", 1970, 1, 1, 0, 0, 0, 0), ("dt", 2000, 2, 29, 23, 59, 59, 999999), ("dt", 2024, 12, 31, 12, 0, 1, 500000),
           ("dt", 1999, 9, 9, 9, 9, 9, 9)]
    rows = []
    for r in range(18):
        rows.append([r + 1, ints[r % len(ints)], floats[r % len(floats)], bools[r % 3], nums[r % len(nums)], fnums[r % len(fnums)],
                     dates[r % len(dates)], dts[r % len(dts)]])
    return dict(name="tc", cols=[("rid", "int"), ("i", "int"), ("f", "float"), ("b", "bool"), ("sn", "str"), ("sf", "str"),
                                 ("d", "date"), ("dt", "datetime")], rows=rows)


def tall_table() -> dict:
    """index 12: a tall table (> 100 rows) whose column `a` starts with a null prefix longer than 100 rows (C01's 'tall' inputs)"""
    rows = []
    for r in range(130):
        rows.append([r + 1, None if r < 101 else (r * 7) % 11 - 3, (r * 5) % 9 - 4, [1, 2, None, 3][r % 4], None if r < 105 else (r % 2 == 0)])
    return dict(name="tt", cols=[("rid", "int"), ("a", "int"), ("b", "int"), ("g", "int"), ("p", "bool")], rows=rows)


# sized column types: the specification treats them as their family
SPEC_TYPE = {"int32": "int", "int8": "int", "uint16": "int", "uint64": "int", "float32": "float"}


def sized_table() -> dict:
    """index 13: sized integer / float columns (C12: concrete static types must equal the exported types)"""
    rows = [[1, 3, 7, (1, 2), 2, True, 5], [None, -2, 0, (-3, 4), None, None, None], [2, None, 200, None, -1, False, 0], [-3, 5, None, (5, 2), 4, True, 9]]
    return dict(name="tz", cols=[("a", "int32"), ("b", "int8"), ("u", "uint16"), ("f", "float32"), ("g", "int"), ("p", "bool"), ("w", "uint64")], rows=rows)


def all_sources(seed: int) -> list[dict]:
    return FIXED + seeded(seed) + EXTRA + [value_table(), string_table(), cast_table(), tall_table(), sized_table()]


def col_id(src_index: int, col_index: int) -> int:
    """Column identity of column col_index (0-based) of source src_index (0-based) in the model."""
    return 10 * (src_index + 1) + col_index + 1


def tla_value(v) -> str:
    if v is None:
        return "NULL"
    if v is True:
        return "TRUE"
    if v is False:
        return "FALSE"
    if isinstance(v, int):
        return str(v)
    if isinstance(v, str):   # text = sequence of code points
        return "<<" + ", ".join(str(ord(c)) for c in v) + ">>"
    if isinstance(v, tuple) and v and v[0] == "date":
        return f"[y |-> {v[1]}, m |-> {v[2]}, d |-> {v[3]}]"
    if isinstance(v, tuple) and v and v[0] == "dt":
        return f"[y |-> {v[1]}, m |-> {v[2]}, d |-> {v[3]}, H |-> {v[4]}, M |-> {v[5]}, S |-> {v[6]}, us |-> {v[7]}]"
    if isinstance(v, tuple):  # rational
        return f"[n |-> {v[0]}, d |-> {v[1]}]"
    raise TypeError(v)


def tla_seq(items) -> str:
    return "<<" + ", ".join(items) + ">>"


def sources_module(seed: int) -> str:
    srcs = all_sources(seed)
    tabs = []
    for si, s in enumerate(srcs):
        cols = tla_seq(
            f'[id |-> {col_id(si, ci)}, nm |-> "{n}", ty |-> "{SPEC_TYPE.get(ty, ty)}"]' for ci, (n, ty) in enumerate(s["cols"])
        )
        data = tla_seq(tla_seq(tla_value(v) for v in row) for row in s["rows"])
        tabs.append(f'Source({cols},\n          {data}, "{s["name"]}", {si + 1})')
    body = ",\n   ".join(tabs)
    return (
        "------------------------------ MODULE Sources ------------------------------\n"
        "(* GENERATED by harness/sources.py -- do not edit. *)\n"
        "EXTENDS Table\n\n"
        f"SrcTables ==\n<< {body} >>\n\n"
        f"NumSources == {len(srcs)}\n"
        "=============================================================================\n"
    )


if __name__ == "__main__":
    import sys
    print(sources_module(int(sys.argv[1]) if len(sys.argv) > 1 else 0))
