"""Running TLC: workdir preparation, wrapper module / cfg generation, output parsing."""
from __future__ import annotations

import json
import os
import re
import shutil
import subprocess
import sys
import time

from . import sources as S

VERIF = os.path.dirname(os.path.dirname(os.path.abspath(__file__)))
SPEC = os.path.join(VERIF, "spec")
WORK = os.path.join(os.environ.get("VERIF_OUT", VERIF), ".work")

TLC_CMD = ["java", "-XX:+UseParallelGC", "-Xmx12g", "-Xss256m", "-cp",
           "/opt/veriftools/tla/tla2tools.jar:/opt/veriftools/tla/CommunityModules-deps.jar", "tlc2.TLC"]


class TlcError(Exception):
    pass


def prepare(run_id: str, seed: int, extra_modules: dict[str, str] | None = None) -> str:
    d = os.path.join(WORK, run_id)
    if os.path.isdir(d):
        shutil.rmtree(d)
    os.makedirs(d)
    for f in os.listdir(SPEC):
        if f.endswith(".tla"):
            shutil.copy(os.path.join(SPEC, f), d)
    with open(os.path.join(d, "Sources.tla"), "w") as f:
        f.write(S.sources_module(seed))
    for name, text in (extra_modules or {}).items():
        with open(os.path.join(d, name), "w") as f:
            f.write(text)
    return d


def tla_lit(v) -> str:
    if isinstance(v, bool):
        return "TRUE" if v else "FALSE"
    if isinstance(v, int):
        return str(v)
    if isinstance(v, str):
        return '"' + v + '"'
    if isinstance(v, (list, tuple)):
        return "<<" + ", ".join(tla_lit(x) for x in v) + ">>"
    if isinstance(v, (set, frozenset)):
        return "{" + ", ".join(tla_lit(x) for x in sorted(v)) + "}"
    raise TypeError(v)


def write_model(d: str, base: str, defs: dict, overrides: dict, invariants=(), properties=(),
                constraint: str | None = None, view: str | None = None, init="Init", next_="Next",
                extra_defs: str = "", postcondition: str | None = None) -> tuple[str, str]:
    """Writes Run.tla (EXTENDS base; one definition per constant) and Run.cfg.

    defs: constant name -> python value (becomes `<name>Def == literal` and `name <- nameDef`)
    overrides: constant name -> operator name defined in `base` (`name <- op`)"""
    lines = ["---- MODULE Run ----", f"EXTENDS {base}", ""]
    cfg = ["CONSTANTS", "  NULL = NULL", "  UNDEF = UNDEF", "  ANY = ANY"]
    for k, v in defs.items():
        lines.append(f"{k}Def == {tla_lit(v)}")
        cfg.append(f"  {k} <- {k}Def")
    for k, v in overrides.items():
        cfg.append(f"  {k} <- {v}")
    if extra_defs:
        lines.append(extra_defs)
    lines.append("====")
    cfg += [f"INIT {init}", f"NEXT {next_}", "CHECK_DEADLOCK FALSE"]
    for i in invariants:
        cfg.append(f"INVARIANT {i}")
    for p in properties:
        cfg.append(f"PROPERTY {p}")
    if constraint:
        cfg.append(f"CONSTRAINT {constraint}")
    if view:
        cfg.append(f"VIEW {view}")
    if postcondition:
        cfg.append(f"POSTCONDITION {postcondition}")
    with open(os.path.join(d, "Run.tla"), "w") as f:
        f.write("\n".join(lines) + "\n")
    with open(os.path.join(d, "Run.cfg"), "w") as f:
        f.write("\n".join(cfg) + "\n")
    return "Run.tla", "Run.cfg"


RE_STATES = re.compile(r"(\d+) states generated, (\d+) distinct states found")
RE_COV = re.compile(r"^<(\w+) line (\d+), col (\d+) .* of module (\w+)>: (\d+):(\d+)")


def run(d: str, *, workers: int = 16, timeout: int = 600, simulate: str | None = None, depth: int | None = None,
        seed: int | None = None, coverage: bool = False, on_json=None, extra_env=None, continue_: bool = False) -> dict:
    """Runs TLC in workdir d on Run.tla / Run.cfg.  Lines that are JSON strings (PrintT(ToJson(..)))
    are decoded and passed to on_json.  Returns statistics; raises TlcError on a TLC failure
    other than a reported property violation (those are returned in result['violations'])."""
    cmd = TLC_CMD + ["-workers", str(workers), "-metadir", os.path.join(d, "meta"), "-noGenerateSpecTE",
                     "-config", "Run.cfg"]
    if simulate:
        cmd += ["-simulate", simulate]
    if depth:
        cmd += ["-depth", str(depth)]
    if seed is not None:
        cmd += ["-seed", str(seed)]
    if coverage:
        cmd += ["-coverage", "1"]
    if continue_:
        cmd += ["-continue"]
    cmd += ["Run.tla"]
    env = dict(os.environ)
    env.update(extra_env or {})
    t0 = time.time()
    p = subprocess.Popen(cmd, cwd=d, stdout=subprocess.PIPE, stderr=subprocess.STDOUT, text=True, env=env, bufsize=1 << 20)
    res = dict(states=0, distinct=0, violations=[], errors=[], coverage={}, json_lines=0, timed_out=False, log=[])
    deadline = t0 + timeout
    try:
        for line in p.stdout:
            if line.startswith('"'):
                res["json_lines"] += 1
                if on_json is not None:
                    try:
                        on_json(json.loads(json.loads(line)))
                    except json.JSONDecodeError:
                        res["errors"].append("unparsable JSON line: " + line[:200])
                continue
            line = line.rstrip("\n")
            m = RE_STATES.search(line)
            if m:
                res["states"], res["distinct"] = int(m.group(1)), int(m.group(2))
            m = RE_COV.match(line)
            if m:
                res["coverage"][m.group(1)] = res["coverage"].get(m.group(1), 0) + int(m.group(6))
            if "is violated" in line or line.startswith("Error: Invariant") or line.startswith("Error: Action property"):
                res["violations"].append(line)
            elif line.startswith("Error:") or "TLC threw an unexpected exception" in line or "*** Errors" in line:
                res["errors"].append(line)
            if not line.startswith(("Parsing file", "Semantic processing", "Linting of")):
                if len(res["log"]) < 400:
                    res["log"].append(line)
            if line.startswith("Error:") and "errctx" not in res:
                res["errctx"] = []
            if "errctx" in res and len(res["errctx"]) < 30:
                res["errctx"].append(line[:400])
            if time.time() > deadline:
                res["timed_out"] = True
                p.kill()
                break
    finally:
        try:
            p.wait(timeout=30)
        except subprocess.TimeoutExpired:
            p.kill()
    res["wall"] = time.time() - t0
    res["rc"] = p.returncode
    real_errors = [e for e in res["errors"] if "is violated" not in e and not e.startswith("Error: The behavior up to")
                   and not e.startswith("Error: The following behavior")]
    if real_errors and not res["violations"] and not res["timed_out"]:
        raise TlcError("\n".join(res.get("errctx", []) + ["..."] + res["log"][-15:]))
    if res["rc"] not in (0, None) and not res["violations"] and not res["timed_out"] and not simulate:
        if res["rc"] != 12:  # 12 = safety violation
            raise TlcError(f"TLC exit code {res['rc']}\n" + "\n".join(res.get("errctx", []) + ["..."] + res["log"][-15:]))
    return res


def cleanup(d: str):
    shutil.rmtree(d, ignore_errors=True)
