"""Binding A: replay behaviours emitted by TLC on the real code (Polars and SQLite).

A behaviour is  {"src": k, "srcnames": [...], "init": [obs...], "steps": [{"m": move, "out": h, "o": obs} |
{"m": move, "out": 0, "err": cls}]}.  After every applied move the projection of the real
table is compared with the observation the specification predicts.  Failures are *collected*
(a known class never masks what comes after it) and returned to the caller, which decides
per property what is a violation.
"""
from __future__ import annotations

import json
import os
import time
import traceback

from . import compare as CMP

INTERNAL_ERRORS = {"AssertionError", "KeyError", "AttributeError", "IndexError", "RecursionError",
                   "NotImplementedError", "UnboundLocalError", "NameError", "ZeroDivisionError"}
ENGINE_ERRORS = {"OperationalError", "ProgrammingError", "ComputeError", "SchemaError", "InvalidOperationError",
                 "ColumnNotFoundError_polars", "DuplicateError", "ShapeError", "PanicException", "SQLAlchemyError",
                 "CompileError", "ArgumentError", "InterfaceError", "IntegrityError", "DataError",
                 "SchemaFieldNotFoundError", "StructFieldNotFoundError"}


def exc_class(e: BaseException) -> str:
    n = type(e).__name__
    mod = type(e).__module__ or ""
    if mod.startswith("polars") and n == "ColumnNotFoundError":
        return "ColumnNotFoundError_polars"
    return n


def never_needs(moves) -> bool:
    """C08 (d): only element-wise mutate/filter, select/drop, rename, arrange, group_by/ungroup, at most one
    grouped summarize, and slice_head only as the last verb."""
    from . import findings as F

    nsumm = 0
    grouped = False
    for idx, m in enumerate(moves):
        v = m["v"]
        if v in ("mutate", "filter", "arrange"):
            tags = set()
            for e in F.move_exprs(m):
                tags |= F.expr_tags(e)
            if "expr:agg" in tags or "expr:win" in tags:
                return False
        elif v in ("select", "drop", "rename"):
            pass
        elif v == "group_by":
            grouped = True
        elif v == "ungroup":
            grouped = False
        elif v == "summarize":
            nsumm += 1
            if nsumm > 1 or not grouped:
                return False
            tags = set()
            for e in F.move_exprs(m):
                tags |= F.expr_tags(e)
            if "expr:win" in tags or "agg:partition_by" in tags:
                return False
            grouped = False
        elif v == "slice_head":
            if idx != len(moves) - 1:
                return False
        else:
            return False
    return True


class Side:
    __slots__ = ("backend", "heap", "colmap", "alive", "why", "marker", "datadef", "frames", "tainted", "pool", "chains")

    def __init__(self, backend):
        self.backend = backend
        self.heap = []          # real tables, index k <-> specification heap index k+1 (None: not available)
        self.colmap = {}        # ColId -> Col
        self.alive = True
        self.why = ""
        self.marker = False     # SQL: a subquery marker was materialised (order knowledge is lost across it)
        self.datadef = True     # data still determined on this side (see section 4)
        self.frames = []        # exported frames per heap index (None if not exported)
        self.tainted = False    # a data failure was already recorded on this side of this behaviour prefix
        self.pool = None        # C10: expression objects shared along the behaviour (json key -> ColExpr)
        self.chains = {}        # opts['chain']: heap position -> (root heap position, table-less verb chain that builds it)

    def copy(self):
        s = Side(self.backend)
        s.heap = list(self.heap)
        s.colmap = dict(self.colmap)
        s.alive, s.why, s.marker, s.datadef = self.alive, self.why, self.marker, self.datadef
        s.frames = list(self.frames)
        s.tainted = self.tainted
        s.pool = self.pool      # deliberately shared: one python object per specification expression
        s.chains = dict(self.chains)    # the chain OBJECTS are shared with the sibling prefixes (a stored chain extended several times)
        return s


class Node:
    """State of the replay after a prefix of a behaviour."""
    __slots__ = ("sides", "fails", "events", "entry_taint")

    def __init__(self, sides):
        self.sides = sides
        self.entry_taint = {bk: s.tainted for bk, s in sides.items()}   # taint inherited from EARLIER steps
        self.fails = []    # failures observed AT this step
        self.events = []   # non-failure events at this step (subquery, skipped, ...)


class Replayer:
    def __init__(self, seed: int, backends=("polars", "sqlite"), opts=None):
        from . import realize as R

        R.assert_repo_import()
        self.R = R
        self.B = R.Backends(seed)
        self.backends = backends
        self.opts = opts or {}
        self.name_to_src = {s["name"]: i for i, s in enumerate(self.B.srcs)}
        self.path = []      # [(key, Node)]
        self.root_key = None
        self.root = None
        self.stats = dict(behaviours=0, steps=0, steps_new=0, nontrivial=0, data_comparisons=0, exports=0, subq=0, subq_alias_ok=0,
                          err_steps=0, skipped_undefined=0, sql_dead=0, missing_ref=0)
        self.failures = []  # dicts
        self.nontrivial = set()
        self.src_checksum = self.B.checksum() if self.opts.get("immut") else None

    # ------------------------------------------------------------------
    def make_root(self, beh):
        sides = {}
        for bk in self.backends:
            s = Side(bk)
            for hi, name in enumerate(beh["srcnames"]):
                si = self.name_to_src[name]
                t = self.B.table(bk, si)
                s.heap.append(t)
                s.frames.append(None)
                src = self.B.srcs[si]
                ids = beh["init"][hi]["ids"]
                names = beh["init"][hi]["names"]
                for cid, n in zip(ids, names):
                    s.colmap[cid] = t[n]
            # identity 999: a reference into an unrelated table (never derivable in any behaviour)
            other = self.B.table(bk, len(self.B.srcs) - 1, name="unrelated")
            s.colmap[999] = other[self.B.srcs[-1]["cols"][0][0]]
            if self.opts.get("immut") or self.opts.get("pool"):
                s.pool = {}         # "pool": shared expression objects only (a user who keeps an expression in a variable), no fingerprint checks
            sides[bk] = s
        return Node(sides)

    # ------------------------------------------------------------------
    def fail(self, node, beh, k, backend, clause, detail, **extra):
        heap_obs = [dict(ids=o["ids"], names=o["names"], part=o["part"], pids=o.get("pids", []), rows=o["rows"][:1]) for o in beh["init"]]
        for s in beh["steps"][:k]:
            if "o" in s:
                o = s["o"]
                while len(heap_obs) < s["out"] - 1:
                    heap_obs.append(None)
                heap_obs.append(dict(ids=o["ids"], names=o["names"], part=o["part"], pids=o.get("pids", []), rows=o["rows"][:1]))
        rec = dict(clause=clause, backend=backend, step=k, detail=str(detail)[:600], src=beh["srcnames"],
                   srcidx=beh["src"], moves=[s["m"] for s in beh["steps"][: k + 1]], heap_obs=heap_obs,
                   beh=dict(src=beh["src"], srcnames=beh["srcnames"], init=beh["init"], steps=beh["steps"][: k + 1]))
        rec.update(extra)
        sides = [node.sides[b] for b in node.sides] if backend == "both" else [node.sides[backend]]
        rec["tainted"] = any(node.entry_taint.get(sd.backend, False) for sd in sides)
        if clause in ("rows", "order", "names", "export-error", "accept", "cross-rows", "cross-order", "cross-names", "dialect-internal"):
            for sd in sides:
                sd.tainted = True
        node.fails.append(rec)

    def build_only(self, node, beh, k, side, tbl, obs, append=True):
        """C19: build_query must give one SELECT, twice the same text, or a documented refusal (all there is to check for the
        dialects without a driver; with opts['buildq'] also checked on SQLite before the table is exported)."""
        R = self.R
        bk = side.backend
        if append:
            side.frames.append(None)
        try:
            q1 = tbl >> R.build_query()
            q2 = tbl >> R.build_query()
        except Exception as e:  # noqa: BLE001
            cls = exc_class(e)
            if cls in ("NotSupportedError", "SubqueryError"):
                self.stats["dialect_refused"] = self.stats.get("dialect_refused", 0) + 1
                return
            self.fail(node, beh, k, bk, "dialect-internal", f"build_query raised {cls}: {str(e)[:300]}", exc=cls)
            return
        self.stats["dialect_queries"] = self.stats.get("dialect_queries", 0) + 1
        if not isinstance(q1, str) or not q1.lstrip().upper().startswith(("SELECT", "WITH")):
            self.fail(node, beh, k, bk, "dialect-noselect", f"build_query returned {str(q1)[:200]!r}")
        elif q1 != q2:
            self.fail(node, beh, k, bk, "dialect-nondet", "build_query twice on one table gave different text")
        elif q1.count(";") and not any(ch in q1 for ch in "'\""):
            self.fail(node, beh, k, bk, "dialect-noselect", "more than one statement")

    def project_and_compare(self, node, beh, k, side, tbl, obs, step):
        R = self.R
        bk = side.backend
        if bk in ("postgres", "mssql"):
            return self.build_only(node, beh, k, side, tbl, obs)
        if bk == "sqlite" and self.opts.get("buildq") and tbl._cache.backend.backend_name != "polars":     # not after a collect()
            self.build_only(node, beh, k, side, tbl, obs, append=False)
        # --- metadata accessors (C11)
        try:
            meta_cols = tbl >> R.columns()
            meta_iter = [c.name for c in tbl]
            meta_len = len(tbl)
            meta_dir = dir(tbl)
            # `in` with a column REFERENCE: true exactly for the columns of the exported frame (not for hidden columns still in scope)
            vis = set(tbl._cache.uuid_to_name)
            for cid, ref in list(side.colmap.items()):
                u = getattr(ref, "_uuid", None)
                if u is not None and u in tbl._cache.cols and (ref in tbl) != (u in vis):
                    self.fail(node, beh, k, bk, "meta", f"`<reference to column {cid}> in table` is {ref in tbl}, the column is {'visible' if u in vis else 'hidden'}")
                    break
        except Exception as e:  # noqa: BLE001
            self.fail(node, beh, k, bk, "meta", f"metadata accessor raised {exc_class(e)}: {e}")
            meta_cols = None
        # --- export
        try:
            df = tbl >> R.export(R.pdt.Polars())
            self.stats["exports"] += 1
        except Exception as e:  # noqa: BLE001
            if bk != "polars" and exc_class(e) == "NotSupportedError":
                # the documented refusal of a SQL dialect; the implementation is looked up when the query is compiled
                side.alive, side.why = False, "not-supported"
                node.events.append(dict(ev="notsupported", backend=bk, step=k))
                side.frames.append(None)
                return None
            self.fail(node, beh, k, bk, "export-error", f"{exc_class(e)}: {e}", exc=exc_class(e))
            side.frames.append(None)
            return None
        side.frames.append(df)
        names = list(df.columns)
        if self.opts.get("printing") and bk == "polars":
            # C11: printing shows the exported frame (all of it up to 10 rows: polars' "shape: (rows, columns)" line and header)
            try:
                txt = str(tbl)
                html = tbl._repr_html_()
                self.stats["printed"] = self.stats.get("printed", 0) + 1
                shape = f"shape: ({min(df.height, 10)}, {df.width})" if df.height <= 10 else None
                if "failed" in txt.split("\n", 2)[1] if txt.count("\n") >= 1 else False:
                    self.fail(node, beh, k, bk, "meta", f"printing the table: {txt[:200]!r}")
                elif shape is not None and names and shape not in txt:
                    self.fail(node, beh, k, bk, "meta", f"printing the table shows {txt[:160]!r}, the exported frame has {shape} and columns {names}")
                elif names and not all(n in txt for n in names):
                    self.fail(node, beh, k, bk, "meta", f"the printed table does not show the columns {names}: {txt[:200]!r}")
                if "export failed" in html or (names and f"shape: ({df.height}, {df.width})" not in html):
                    self.fail(node, beh, k, bk, "meta", f"_repr_html_: {html[:200]!r} for a frame of shape ({df.height}, {df.width})")
            except Exception as e:  # noqa: BLE001
                self.fail(node, beh, k, bk, "meta", f"printing the table raised {exc_class(e)}: {e}")
        if meta_cols is not None:
            if not (meta_cols == names and meta_iter == names and meta_len == len(names) and sorted(meta_dir) == sorted(names)
                    and all(n in tbl for n in names)):
                self.fail(node, beh, k, bk, "meta",
                          f"columns()={meta_cols} iter={meta_iter} len={meta_len} dir={list(meta_dir)} export={names}")
        if names != obs["names"]:
            self.fail(node, beh, k, bk, "names", f"exported {names}, specification {obs['names']}")
            if sorted(names) != sorted(obs["names"]):
                if self.opts.get("targets"):      # the targets must agree with each other whatever the specification says
                    self.check_targets(node, beh, k, bk, tbl, df, obs)
                return df
            # same set, different order: compare data by name
            df_cmp = df.select(obs["names"])
        else:
            df_cmp = df
        # --- grouping state
        try:
            pb = list(tbl._cache.partition_by)
            if all(u in tbl._cache.uuid_to_name for u in pb):
                part = [tbl._cache.uuid_to_name[u] for u in pb]
            else:   # a hidden grouping column has no observable name: compare the number of grouping columns only
                part = obs["part"] if len(pb) == len(obs["part"]) else [str(u) for u in pb]
            if part != obs["part"]:
                self.fail(node, beh, k, bk, "group", f"grouping {part}, specification {obs['part']}")
        except Exception as e:  # noqa: BLE001
            self.fail(node, beh, k, bk, "group", f"cannot read grouping: {exc_class(e)}: {e}")
        # --- static and exported types (C12)
        try:
            stmap = {c.name: CMP.pdt_family(c.dtype()) for c in tbl}
            ex = [CMP.pl_family(t) for t in df.dtypes]
            wantmap = dict(zip(obs["names"], obs["tys"]))
            from pydiverse.transform._internal.tree import types as _types

            for c in tbl:
                # a CONCRETE static type (sized int / float, bool, string, date ...) must be exactly the exported type on Polars
                d0 = _types.without_const(c.dtype())
                if bk == "polars" and c.name in df.columns and _types.is_subtype(d0) and type(d0).__name__ not in ("NullType", "Decimal"):
                    try:
                        want_pl = d0.to_polars()
                    except Exception:  # noqa: BLE001
                        continue
                    got_pl = df.schema[c.name]
                    if want_pl != got_pl and not (str(got_pl) == "Null" and all(v is None for v in df[c.name].to_list())):
                        self.fail(node, beh, k, bk, "dtype-export", f"column {c.name}: static type {d0} ({want_pl}), exported {got_pl}")
            collected_from_sql_tbl = bk != "polars" and tbl._cache.backend.backend_name == "polars"
            for n, e_ in zip(names, ex):
                w = wantmap.get(n)
                s_ = stmap.get(n)
                if w is None or s_ is None:
                    continue
                # a table collected from a SQL back end is typed by its exported frame: "up to the numeric family"
                collected_from_sql = bk != "polars" and tbl._cache.backend.backend_name == "polars"
                if s_ != w and not (s_ == "null") and not (collected_from_sql and {s_, w} <= {"int", "float"}):
                    self.fail(node, beh, k, bk, "dtype-static", f"column {n}: static type family {s_}, specification {w}")
                okfam = (e_ == w) or (e_ == "null" and all(v is None for v in df[n].to_list())) or (
                    bk != "polars" and {e_, w} <= {"int", "float"})     # "up to the numeric family" on SQL
                if not okfam:
                    self.fail(node, beh, k, bk, "dtype-export", f"column {n}: exported {e_}, specification {w}")
            # the same through an earlier reference: tbl[ref] is the column as THIS table sees it
            for cid, ref in list(side.colmap.items()):
                u = getattr(ref, "_uuid", None)
                if u is not None and u in tbl._cache.uuid_to_name:
                    cur = tbl[ref]
                    w = wantmap.get(cur.name)
                    s_ = CMP.pdt_family(cur.dtype())
                    if w is not None and s_ != w and s_ != "null" and not (collected_from_sql_tbl and {s_, w} <= {"int", "float"}):
                        self.fail(node, beh, k, bk, "dtype-static", f"column {cur.name} through an earlier reference (tbl[ref]): static type family {s_}, specification {w}")
        except Exception as e:  # noqa: BLE001
            self.fail(node, beh, k, bk, "dtype-static", f"dtype accessor raised {exc_class(e)}: {e}")
        if self.opts.get("roundtrip"):
            self.check_roundtrip(node, beh, k, bk, tbl, df)
        if self.opts.get("targets"):
            self.check_targets(node, beh, k, bk, tbl, df, obs)
        # --- data
        specdef = obs["pdef"] if bk == "polars" else obs["sdef"]
        if not (specdef and side.datadef):
            self.stats["skipped_undefined"] += 1
            return df
        cls = obs["pcls"] if bk == "polars" else obs["scls"]
        if bk != "polars" and side.marker:
            cls = None      # order knowledge does not survive a materialised subquery (sound: compare as bag)
        exp_rows = CMP.spec_rows(obs)
        if CMP.has_undef(exp_rows):
            if "rid" in obs["names"]:
                res = CMP.compare_aligned(exp_rows, CMP.frame_rows(df_cmp), obs["tys"], obs["names"].index("rid"))
            else:
                self.stats["skipped_undefined"] += 1
                return df
        else:
            res = CMP.compare_rows(exp_rows, CMP.frame_rows(df_cmp), obs["tys"], cls)
        self.stats["data_comparisons"] += 1
        if exp_rows:
            node.events.append(dict(ev="nontrivial"))
        if res is not None:
            self.fail(node, beh, k, bk, res[0], res[1], expected=obs["rows"][:8], actual=CMP.frame_rows(df_cmp)[:8])
        return df

    # ------------------------------------------------------------------
    def check_roundtrip(self, node, beh, k, bk, tbl, df):
        """C12 / C20: Table(exported frame) reproduces data and column types."""
        R = self.R
        try:
            t2 = R.pdt.Table(df)
            df2 = t2 >> R.export(R.pdt.Polars())
            if list(df2.columns) != list(df.columns) or df2.schema != df.schema:
                self.fail(node, beh, k, bk, "dtype-roundtrip", f"re-imported frame schema {dict(df2.schema)} != exported {dict(df.schema)}")
            elif not df2.equals(df, null_equal=True):
                self.fail(node, beh, k, bk, "roundtrip-data", "re-imported frame differs from the exported one")
            st1 = {c.name: CMP.pdt_family(c.dtype()) for c in tbl}
            st2 = {c.name: CMP.pdt_family(c.dtype()) for c in t2}
            for n in st2:
                a, b = st1.get(n), st2[n]
                if a is None or a == b or b == "null" or a == "null":
                    continue
                if bk != "polars" and {a, b} <= {"int", "float"}:
                    continue
                self.fail(node, beh, k, bk, "dtype-roundtrip", f"column {n}: static type family {a} before export, {b} after re-import")
        except Exception as e:  # noqa: BLE001
            self.fail(node, beh, k, bk, "dtype-roundtrip", f"re-import raised {exc_class(e)}: {e}")

    def check_targets(self, node, beh, k, bk, tbl, df, obs):
        """C20: every export target describes the same table as export(Polars())."""
        R = self.R
        pdt = R.pdt
        names = list(df.columns)
        rows = CMP.frame_rows(df)

        def bad(what, detail):
            self.fail(node, beh, k, bk, "target", f"{what}: {detail}")

        def same_rows(a, b):
            return CMP.compare_rows(a, b, None, list(range(len(a)))) is None

        try:
            lz = tbl >> R.export(pdt.Polars(lazy=True))
            d2 = lz.collect() if hasattr(lz, "collect") else lz   # SQL backends hand back an eager frame
            if list(d2.columns) != names or d2.schema != df.schema:
                bad("Polars(lazy=True)", f"schema {dict(d2.schema)} vs {dict(df.schema)}")
            elif not self.frames_equal(df, d2, obs, bk):
                bad("Polars(lazy=True)", "collected lazy frame differs from export(Polars())")
        except Exception as e:  # noqa: BLE001
            bad("Polars(lazy=True)", f"raised {exc_class(e)}: {e}")
        try:
            dl = tbl >> R.export(pdt.DictOfLists())
            if list(dl.keys()) != names:
                bad("DictOfLists", f"keys {list(dl.keys())} vs {names}")
            else:
                r2 = [list(r) for r in zip(*[dl[n] for n in names])] if names and rows else []
                if not self.rows_equal(rows, r2, obs, bk):
                    bad("DictOfLists", f"values differ: {r2[:3]} vs {rows[:3]}")
        except Exception as e:  # noqa: BLE001
            bad("DictOfLists", f"raised {exc_class(e)}: {e}")
        try:
            ld = tbl >> R.export(pdt.ListOfDicts())
            if any(list(d.keys()) != names for d in ld):
                bad("ListOfDicts", "keys differ")
            else:
                r2 = [[d[n] for n in names] for d in ld]
                if not self.rows_equal(rows, r2, obs, bk):
                    bad("ListOfDicts", f"values differ: {r2[:3]} vs {rows[:3]}")
        except Exception as e:  # noqa: BLE001
            bad("ListOfDicts", f"raised {exc_class(e)}: {e}")
        try:
            pdf = tbl >> R.export(pdt.Pandas())
            if list(pdf.columns) != names:
                bad("Pandas", f"columns {list(pdf.columns)} vs {names}")
            else:
                import pandas as pd

                r2 = [[None if pd.isna(v) else (v.item() if hasattr(v, "item") else v) for v in rec] for rec in pdf.itertuples(index=False, name=None)]
                if not self.rows_equal(rows, r2, obs, bk):
                    bad("Pandas", f"values differ: {r2[:3]} vs {rows[:3]}")
                back = pdt.Table(pdf) >> R.export(pdt.Polars())
                if list(back.columns) != names or [CMP.pl_family(t) for t in back.dtypes] != [CMP.pl_family(t) for t in df.dtypes]:
                    okn = all(a == b or "null" in (a, b) for a, b in zip([CMP.pl_family(t) for t in back.dtypes], [CMP.pl_family(t) for t in df.dtypes]))
                    if not okn:
                        bad("Pandas", f"Table(pandas export) has types {back.dtypes} vs {df.dtypes}")
        except NotImplementedError:
            if bk == "polars":
                bad("Pandas", "raised NotImplementedError")
            else:
                self.stats["pandas_target_unavailable_on_sql"] = self.stats.get("pandas_target_unavailable_on_sql", 0) + 1
        except Exception as e:  # noqa: BLE001
            bad("Pandas", f"raised {exc_class(e)}: {e}")
        # Dict / Scalar where applicable
        if df.height == 1:
            try:
                d1 = tbl >> R.export(pdt.Dict())
                if list(d1.keys()) != names or not self.rows_equal(rows, [[d1[n] for n in names]], obs, bk):
                    bad("Dict", f"{d1} vs {rows}")
            except Exception as e:  # noqa: BLE001
                bad("Dict", f"raised {exc_class(e)}: {e}")
            if len(names) == 1:
                try:
                    sc = tbl >> R.export(pdt.Scalar())
                    if not self.rows_equal(rows, [[sc]], obs, bk):
                        bad("Scalar", f"{sc!r} vs {rows}")
                except Exception as e:  # noqa: BLE001
                    bad("Scalar", f"raised {exc_class(e)}: {e}")
        self.check_expr_export(node, beh, k, bk, tbl, df, obs)
        # ColExpr.export of every visible column (a separate path: get_expr_as_table)
        if obs["part"] == [] and names:
            try:
                for c in tbl:
                    ser = c.export(pdt.Polars())
                    if ser.name != c.name:
                        bad("ColExpr.export", f"series name {ser.name!r} vs column {c.name!r}")
                    col_rows = [[v] for v in ser.to_list()]
                    want = [[r[names.index(c.name)]] for r in rows]
                    if not self.rows_equal(want, col_rows, obs, bk, single=names.index(c.name)):
                        bad("ColExpr.export", f"column {c.name}: {col_rows[:4]} vs {want[:4]}")
            except Exception as e:  # noqa: BLE001
                bad("ColExpr.export", f"raised {exc_class(e)}: {e}")
            # the other documented forms: Polars(lazy=True) is ignored (a Series comes back), the class instead of an instance,
            # and Pandas (a pandas Series of the same name, length and values - also for a single row)
            try:
                import pandas as pd

                c = next(iter(tbl))
                want = [[r[names.index(c.name)]] for r in rows]
                idx = names.index(c.name)
                for label, target in (("Polars(lazy=True)", pdt.Polars(lazy=True)), ("Polars (class)", pdt.Polars)):
                    ser = c.export(target)
                    if type(ser).__name__ != "Series" or ser.name != c.name or not self.rows_equal(want, [[v] for v in ser.to_list()], obs, bk, single=idx):
                        bad("ColExpr.export", f"{label}: {type(ser).__name__} {getattr(ser, 'name', None)!r} vs column {c.name!r} {want[:3]}")
                if bk == "polars":
                    ps = c.export(pdt.Pandas())
                    if not isinstance(ps, pd.Series):
                        bad("ColExpr.export", f"Pandas: returned {type(ps).__name__} {ps!r} instead of a Series")
                    else:
                        got = [[None if pd.isna(v) else (v.item() if hasattr(v, "item") else v)] for v in ps.tolist()]
                        if ps.name != c.name or not self.rows_equal(want, got, obs, bk, single=idx):
                            bad("ColExpr.export", f"Pandas: series {ps.name!r} {got[:3]} vs column {c.name!r} {want[:3]}")
            except NotImplementedError:
                pass
            except Exception as e:  # noqa: BLE001
                bad("ColExpr.export", f"other targets raised {exc_class(e)}: {e}")

    def check_expr_export(self, node, beh, k, bk, tbl, df, obs):
        """C20: ColExpr.export of an EXPRESSION over the table (get_expr_as_table is a separate path)"""
        R = self.R
        names = list(df.columns)
        if not names:
            return
        if obs["part"]:
            # a grouped table: an aggregate without partition_by= is evaluated per group, through ColExpr.export like in mutate
            for n, ty in zip(obs["names"], obs["tys"]):
                if ty == "int" and n in names and n not in obs["part"]:
                    try:
                        agg = tbl[n].sum()       # (a column that came back null-typed from a SQL collect() has no `sum`: not this oracle's business)
                    except Exception:  # noqa: BLE001
                        return
                    try:
                        got = sorted(map(repr, agg.export(R.pdt.Polars()).to_list()))
                        want = sorted(map(repr, (tbl >> R.mutate(**{"x__": agg}) >> R.export(R.pdt.Polars()))["x__"].to_list()))
                        self.stats["expr_export_grouped"] = self.stats.get("expr_export_grouped", 0) + 1
                        if got != want:
                            self.fail(node, beh, k, bk, "target", f"ColExpr.export of {n}.sum() on a table grouped by {obs['part']}: {got[:6]} vs mutate {want[:6]}")
                    except Exception as e:  # noqa: BLE001
                        if not (bk != "polars" and exc_class(e) in ("SubqueryError", "NotSupportedError")):
                            self.fail(node, beh, k, bk, "target", f"ColExpr.export of {n}.sum() on a grouped table raised {exc_class(e)}: {e}")
                    return
            return
        for idx, (n, ty) in enumerate(zip(obs["names"], obs["tys"])):
            if ty == "int" and n in names:
                try:
                    ser = (tbl[n] + 1).export(R.pdt.Polars())
                    got = [[v] for v in ser.to_list()]
                    want = [[None if r[names.index(n)] is None else r[names.index(n)] + 1] for r in CMP.frame_rows(df)]
                    if not self.rows_equal(want, got, obs, bk, single=idx):
                        self.fail(node, beh, k, bk, "target", f"ColExpr.export of ({n} + 1): {got[:4]} vs {want[:4]}")
                except Exception as e:  # noqa: BLE001
                    self.fail(node, beh, k, bk, "target", f"ColExpr.export of ({n} + 1) raised {exc_class(e)}: {e}")
                # the same column through a reference taken from an EARLIER table, mentioned first: the expression lives in the
                # latest table it mentions (the rows of `tbl`, not those of the table the old reference was taken from)
                side = node.sides[bk]
                old = side.colmap.get(obs["ids"][idx]) if idx < len(obs["ids"]) else None
                if old is not None and getattr(old, "_ast", None) is not getattr(tbl, "_ast", None) and getattr(old, "_uuid", None) == tbl[n]._uuid:
                    try:
                        ser = (old + tbl[n]).export(R.pdt.Polars())
                        got = [[v] for v in ser.to_list()]
                        want = [[None if r[names.index(n)] is None else 2 * r[names.index(n)]] for r in CMP.frame_rows(df)]
                        self.stats["expr_export_two_refs"] = self.stats.get("expr_export_two_refs", 0) + 1
                        if len(got) != len(want) or not self.rows_equal(want, got, obs, bk, single=idx):
                            self.fail(node, beh, k, bk, "target", f"ColExpr.export of (<earlier reference to {n}> + {n}): {len(got)} values {got[:4]} vs {len(want)} rows {want[:4]}")
                        # ... also when the latest table is mentioned only as an `arrange=` key of a window function
                        ser = old.shift(1, arrange=tbl[n]).export(R.pdt.Polars())
                        if len(ser) != df.height:
                            self.fail(node, beh, k, bk, "target", f"ColExpr.export of <earlier reference to {n}>.shift(1, arrange={n}): {len(ser)} values, the table has {df.height} rows")
                        else:
                            keys = df[n].to_list()
                            if None not in keys and len(set(keys)) == len(keys):
                                want2 = (tbl >> R.mutate(**{"x__": old.shift(1, arrange=tbl[n])}) >> R.export(R.pdt.Polars()))["x__"].to_list()
                                if sorted(map(repr, want2)) != sorted(map(repr, ser.to_list())):
                                    self.fail(node, beh, k, bk, "target", f"ColExpr.export of <earlier reference to {n}>.shift(1, arrange={n}): {ser.to_list()[:5]} vs mutate {want2[:5]}")
                    except ValueError as e:
                        # the documented refusal: no table of the expression contains the others (e.g. the reference predates a collect())
                        if "no common ancestor" not in str(e):
                            self.fail(node, beh, k, bk, "target", f"ColExpr.export of (<earlier reference to {n}> + {n}) raised {exc_class(e)}: {e}")
                    except Exception as e:  # noqa: BLE001
                        if not (bk != "polars" and exc_class(e) in ("SubqueryError", "NotSupportedError")):     # documented refusals on SQL
                            self.fail(node, beh, k, bk, "target", f"ColExpr.export of an expression over <earlier reference to {n}> and {n} raised {exc_class(e)}: {e}")
                return

    def order_cls(self, obs, bk, n):
        """class vector that licenses sequence comparison between two exports of the SAME table on one backend"""
        cls = obs["pcls"] if bk == "polars" else obs["scls"]
        defd = obs["pdef"] if bk == "polars" else obs["sdef"]
        if not defd or len(cls) != n:
            return None
        return cls

    def rows_equal(self, a, b, obs, bk, single=None):
        if len(a) != len(b):
            return False
        tys = obs["tys"] if len(obs["tys"]) == (len(a[0]) if a else len(obs["tys"])) else None
        if single is not None:
            tys = [obs["tys"][single]] if single < len(obs["tys"]) else None
        specdef = obs["pdef"] if bk == "polars" else obs["sdef"]
        if not specdef:
            return True     # repeated evaluation of an order-undetermined pipeline may legitimately differ
        return CMP.compare_rows(a, b, tys, self.order_cls(obs, bk, len(a))) is None

    def frames_equal(self, d1, d2, obs, bk):
        return self.rows_equal(CMP.frame_rows(d1), CMP.frame_rows(d2), obs, bk)

    # ------------------------------------------------------------------
    def run_side(self, node, beh, k, side, step):
        R = self.R
        bk = side.backend
        m = step["m"]
        exp_err = step.get("err")
        if not side.alive:
            return
        if m["v"] == "equiv":
            if "val" in step:
                self.run_equiv(node, beh, k, side, step)
            return
        subq = False
        immut = self.opts.get("immut")
        if immut:
            from . import immut as IM

            before_t = [None if t is None else IM.fp_table(t) for t in side.heap]
            before_e = {key: IM.fp_expr(x) for key, x in side.pool.items() if not key.startswith("__")}
        tap = [] if self.opts.get("chain") else None
        try:
            res = R.apply_move(m, side.heap, side.colmap, side.pool, tap) if tap is not None else R.apply_move(m, side.heap, side.colmap, side.pool)
        except R.MissingRef as e:
            side.alive, side.why = False, f"missing-ref {e}"
            self.stats["missing_ref"] += 1
            return
        except Exception as e:  # noqa: BLE001
            cls = exc_class(e)
            if cls == "SubqueryError" and exp_err is None:
                if bk == "polars":
                    self.fail(node, beh, k, bk, "polars-subquery", f"Polars-backed table raised SubqueryError: {e}")
                    side.alive, side.why = False, "polars-subquery"
                    return
                subq = True
                if self.opts.get("fresh_decision", True) and not self.fresh_also_refuses(beh, k, bk):
                    self.fail(node, beh, k, bk, "subq-shared",
                              "the verb is refused with SubqueryError on a table object that other pipelines were built from before, "
                              "but accepted when the same pipeline is built from scratch")
                if never_needs([st["m"] for st in beh["steps"][: k + 1]]):
                    self.fail(node, beh, k, bk, "never-needs",
                              f"pipeline of the class that never needs a subquery was refused: {str(e)[-160:]}")
                node.events.append(dict(ev="subq", backend=bk, step=k, reason=str(e).split("reason for the subquery: ")[-1].split("\n")[0]))
                self.stats["subq"] += 1
                res = self.retry_with_alias(node, beh, k, side, m)
                if res is None:
                    return
            elif cls == "TypeError" and "different backends" in str(e) and bk != "polars":
                side.alive, side.why = False, "mixed-backends-after-collect"
                return
            elif exp_err is not None:
                self.stats["err_steps"] += 1
                node.events.append(dict(ev="nontrivial"))
                if cls != exp_err:
                    self.fail(node, beh, k, bk, "errclass", f"specification: {exp_err}, raised {cls}: {e}",
                              expected=exp_err, exc=cls)
                return
            elif cls == "TypeError" and "different backends" in str(e) and bk != "polars":
                # the SQL-side pipeline went through collect() and is Polars-backed from there on
                side.alive, side.why = False, "mixed-backends-after-collect"
                return
            elif cls == "NotSupportedError" and bk != "polars":
                side.alive, side.why = False, "not-supported"
                node.events.append(dict(ev="notsupported", backend=bk, step=k))
                return
            else:
                self.fail(node, beh, k, bk, "accept", f"specification accepts, verb raised {cls}: {e}", exc=cls,
                          tb=traceback.format_exc(limit=-3)[-400:])
                side.alive, side.why = False, "rejected"
                return
        if immut:
            self.check_immut(node, beh, k, side, m, before_t, before_e)
        if exp_err is not None:
            self.fail(node, beh, k, bk, "errclass", f"specification: {exp_err}, verb call was accepted", expected=exp_err, exc=None)
            self.stats["err_steps"] += 1
            return
        if "val" in step:
            if res != step["val"]:
                self.fail(node, beh, k, bk, "getname", f"tbl[ref].name = {res!r}, specification {step['val']!r}")
            return
        obs = step["o"]
        # extend heap / references
        side.heap.append(res)
        for cid, n in zip(obs["ids"], obs["names"]):
            if cid not in side.colmap:
                try:
                    side.colmap[cid] = res[n]
                except Exception:  # noqa: BLE001
                    pass
        if bk != "polars" and not side.marker and hasattr(res, "_ast"):
            # the code may have turned an alias() of the pipeline into a subquery without raising
            side.marker = any(type(nd).__name__ == "SubqueryMarker" for nd in res._ast.iter_subtree_preorder())
        if bk != "polars" and m["v"] == "slice_head" and side.marker:
            # LIMIT in an outer query without its own ORDER BY: which rows survive is not determined
            side.datadef = False
        df = self.project_and_compare(node, beh, k, side, res, obs, step)
        if tap is not None and len(tap) == 1 and not subq:
            self.check_chain(node, beh, k, side, m, tap[0], res, df, obs)

    def check_chain(self, node, beh, k, side, m, call, res, df, obs):
        """C02 / C10: the verbs of a pipeline composed without a table (`verb1(..) >> verb2(..)`, kept in a variable and extended once
        per continuation) and applied to the source afterwards build the same table as piping the table through them one by one."""
        R = self.R
        bk = side.backend
        base = m["i"] - 1
        root, parent_chain = side.chains.get(base, (base, None))

        def col_ids(x):
            if isinstance(x, dict):
                if x.get("k") == "col" and "id" in x:
                    yield x["id"]
                for v in x.values():
                    yield from col_ids(v)
            elif isinstance(x, list):
                for v in x:
                    yield from col_ids(v)

        # a reference to a column that an EARLIER call of the chain creates denotes the column of the table built step by step, which
        # the table built inside the chain does not contain: such a continuation starts a new chain at its own table
        root_ids = {cid for cid, c in side.colmap.items() if getattr(c, "_uuid", None) in getattr(side.heap[root]._cache, "cols", {})} if side.heap[root] is not None else set()
        if parent_chain is not None and any(c not in root_ids for c in col_ids(m)):
            root, parent_chain = base, None
        try:
            chain = call if parent_chain is None else parent_chain >> call
        except Exception as e:  # noqa: BLE001
            self.fail(node, beh, k, bk, "chain", f"composing the verb chain raised {exc_class(e)}: {e}")
            return
        side.chains[len(side.heap) - 1] = (root, chain)
        if df is None or side.heap[root] is None:
            return
        try:
            d2 = side.heap[root] >> chain >> R.export(R.pdt.Polars())
        except Exception as e:  # noqa: BLE001
            self.fail(node, beh, k, bk, "chain", f"source >> (verb chain of {k + 1 if parent_chain is not None else 1} call(s)) raised {exc_class(e)}: {str(e)[:300]}")
            return
        self.stats["chains"] = self.stats.get("chains", 0) + 1
        if list(d2.columns) != list(df.columns) or d2.height != df.height or (side.datadef and not self.frames_equal(df, d2, obs, bk)):
            self.fail(node, beh, k, bk, "chain", f"source >> verb chain gives columns {list(d2.columns)} / {d2.height} rows, piping the table through the "
                                                f"same calls one by one {list(df.columns)} / {df.height} rows (or other values)")

    def check_immut(self, node, beh, k, side, m, before_t, before_e):
        """C10: nothing that existed before the call changed; re-running earlier pipelines gives the same result."""
        from . import immut as IM

        R = self.R
        bk = side.backend
        for idx, (t, fp0) in enumerate(zip(side.heap, before_t)):
            if t is None:
                continue
            if IM.fp_table(t) != fp0:
                self.fail(node, beh, k, bk, "immut-fp", f"table at heap index {idx + 1} (AST or metadata) changed during the call")
        for key, fp0 in before_e.items():
            if IM.fp_expr(side.pool[key]) != fp0:
                self.fail(node, beh, k, bk, "immut-fp", f"expression object passed as an argument earlier was modified: {key[:200]}")
        # argument containers created for THIS call (the list given as on=): compared with what the caller built
        for key, fp0 in side.pool.get("__created__", {}).items():
            if key not in before_e and IM.fp_expr(side.pool[key]) != fp0:
                self.fail(node, beh, k, bk, "immut-fp", f"the list passed as an argument was modified by the call: {key[:200]}")
        # re-export the inputs of this move: same result as when they were first exported
        for w in ("i", "j"):
            if w in m and m[w] - 1 < len(side.frames):
                t, f0 = side.heap[m[w] - 1], side.frames[m[w] - 1]
                if t is None or f0 is None:
                    continue
                try:
                    f1 = t >> R.export(R.pdt.Polars())
                    same = list(f1.columns) == list(f0.columns) and CMP.compare_rows(CMP.frame_rows(f0), CMP.frame_rows(f1), None, None) is None
                    if not same:
                        self.fail(node, beh, k, bk, "immut-data", f"re-export of input table {m[w]} after later use differs from its first export")
                    if bk != "polars":
                        q1, q2 = t >> R.build_query(), t >> R.build_query()
                        if q1 != q2:
                            self.fail(node, beh, k, bk, "immut-query", "build_query() twice on one table gave different text")
                except Exception as e:  # noqa: BLE001
                    self.fail(node, beh, k, bk, "immut-data", f"re-export of input table {m[w]} raised {exc_class(e)}: {e}")

    def run_equiv(self, node, beh, k, side, step):
        """C15: both sides of a documented equivalence are executed from the same table and compared with the
        specification's prediction and with each other."""
        R = self.R
        bk = side.backend
        m = step["m"]
        val = step["val"]
        results = {}
        for which, obs in (("lhs", val["lo"]), ("rhs", val["ro"])):
            t = side.heap[m["i"] - 1]
            if t is None:
                return
            colmap = dict(side.colmap)
            heap = list(side.heap) + [t]
            cur = len(heap)
            try:
                for mm in m[which]:
                    mm2 = dict(mm, i=cur)
                    try:
                        t = R.apply_move(mm2, heap, colmap, side.pool)
                    except Exception as e:  # noqa: BLE001
                        if exc_class(e) == "SubqueryError" and bk != "polars":
                            heap[cur - 1] = heap[cur - 1] >> R.alias(keep_col_refs=True)
                            t = R.apply_move(mm2, heap, colmap, side.pool)
                        else:
                            raise
                    heap[cur - 1] = t
                df = t >> R.export(R.pdt.Polars())
            except R.MissingRef:
                return
            except Exception as e:  # noqa: BLE001
                if exc_class(e) in ("SubqueryError", "NotSupportedError") and bk != "polars":
                    return
                self.fail(node, beh, k, bk, "accept", f"{m['kind']} {which}: raised {exc_class(e)}: {e}", exc=exc_class(e))
                return
            specdef = obs["pdef"] if bk == "polars" else obs["sdef"]
            if list(df.columns) != obs["names"]:
                self.fail(node, beh, k, bk, "names", f"{m['kind']} {which}: exported {list(df.columns)}, specification {obs['names']}")
                return
            if specdef:
                res = CMP.compare_rows(CMP.spec_rows(obs), CMP.frame_rows(df), obs["tys"], None)
                if res is not None:
                    self.fail(node, beh, k, bk, res[0], f"{m['kind']} {which}: " + res[1])
            results[which] = (df, specdef)
        if len(results) == 2 and results["lhs"][1] and results["rhs"][1]:
            dl, dr = results["lhs"][0], results["rhs"][0]
            if m["modcols"]:
                if sorted(dl.columns) != sorted(dr.columns):
                    self.fail(node, beh, k, bk, "equiv", f"{m['kind']}: column sets differ {dl.columns} vs {dr.columns}")
                    return
                dr = dr.select(dl.columns)
            elif list(dl.columns) != list(dr.columns):
                self.fail(node, beh, k, bk, "equiv", f"{m['kind']}: columns differ {dl.columns} vs {dr.columns}")
                return
            res = CMP.compare_rows(CMP.frame_rows(dl), CMP.frame_rows(dr), val["lo"]["tys"], None)
            if res is not None:
                self.fail(node, beh, k, bk, "equiv", f"{m['kind']}: the two sides differ: " + res[1])

    def fresh_also_refuses(self, beh, k, bk) -> bool:
        """rebuilds the behaviour prefix from fresh source tables (no object shared with any other pipeline): is step k refused too?"""
        R = self.R
        root = self.make_root(beh)
        side = root.sides[bk]
        try:
            for j, st in enumerate(beh["steps"][: k + 1]):
                m = st["m"]
                if m["v"] in ("equiv", "getname"):
                    continue
                try:
                    res = R.apply_move(m, side.heap, side.colmap)
                except Exception as e:  # noqa: BLE001
                    if exc_class(e) != "SubqueryError":
                        if j == k:
                            return True
                        continue
                    if j == k:
                        return True
                    heap2 = list(side.heap)
                    res = None
                    for which in (("i",), ("j",), ("i", "j")):
                        if any(w not in m for w in which):
                            continue
                        try:
                            h3 = list(heap2)
                            for w in which:
                                h3[m[w] - 1] = h3[m[w] - 1] >> R.alias(keep_col_refs=True)
                            res = R.apply_move(m, h3, side.colmap)
                            break
                        except Exception:  # noqa: BLE001
                            res = None
                    if res is None:
                        return True
                if "o" in st:
                    while len(side.heap) < st["out"] - 1:
                        side.heap.append(None)
                    side.heap.append(res)
                    for cid, n in zip(st["o"]["ids"], st["o"]["names"]):
                        if cid not in side.colmap:
                            try:
                                side.colmap[cid] = res[n]
                            except Exception:  # noqa: BLE001
                                pass
            return False
        except Exception:  # noqa: BLE001
            return True

    def retry_with_alias(self, node, beh, k, side, m):
        """C08: inserting alias() directly before the refused verb must make it accepted."""
        R = self.R
        bk = side.backend
        tried = []
        for which in (("i",), ("j",), ("i", "j")):
            if any(w not in m for w in which):
                continue
            heap2 = list(side.heap)
            try:
                for w in which:
                    heap2[m[w] - 1] = heap2[m[w] - 1] >> R.alias(keep_col_refs=True)
                res = R.apply_move(m, heap2, side.colmap, side.pool)
                side.marker = True
                self.stats["subq_alias_ok"] += 1
                return res
            except Exception as e:  # noqa: BLE001
                tried.append(f"{which}: {exc_class(e)}: {str(e)[:120]}")
        self.fail(node, beh, k, bk, "alias-unblocks", "verb refused with SubqueryError also after alias(): " + " | ".join(tried))
        side.alive, side.why = False, "alias-unblocks"
        return None

    # ------------------------------------------------------------------
    def cross_compare(self, node, beh, k, step):
        """C01: Polars and SQLite results of the same pipeline against each other."""
        if "o" not in step or "polars" not in self.backends or "sqlite" not in self.backends:
            return
        sp, ss = node.sides["polars"], node.sides["sqlite"]
        if not (sp.alive and ss.alive):
            return
        out = step["out"] - 1
        if out >= len(sp.frames) or out >= len(ss.frames):
            return
        dp, ds = sp.frames[out], ss.frames[out]
        if dp is None or ds is None:
            return
        obs = step["o"]
        if list(dp.columns) != list(ds.columns):
            self.fail(node, beh, k, "both", "cross-names", f"polars {list(dp.columns)} sqlite {list(ds.columns)}")
            return
        if not (obs["pdef"] and obs["sdef"] and sp.datadef and ss.datadef):
            return
        cls = None if ss.marker else obs["scls"]
        tys = obs["tys"] if list(dp.columns) == obs["names"] else None
        exp_rows = CMP.spec_rows(obs)
        if CMP.has_undef(exp_rows):
            # compare the two back ends only on the cells the specification defines
            if "rid" not in obs["names"] or list(dp.columns) != obs["names"]:
                return
            key = obs["names"].index("rid")
            pm = {r[key]: r for r in CMP.frame_rows(dp)}
            masked = []
            for er in exp_rows:
                pr = pm.get(er[key])
                if pr is None:
                    return
                masked.append([CMP.UNDEF if ev is CMP.UNDEF else pv for ev, pv in zip(er, pr)])   # ANY cells stay: compared with tolerance
            res = CMP.compare_aligned(masked, CMP.frame_rows(ds), tys, key)
            if res is not None:
                self.fail(node, beh, k, "both", "cross-" + res[0], res[1])
            return
        res = CMP.compare_rows(CMP.frame_rows(dp), CMP.frame_rows(ds), tys, cls if cls is not None and len(cls) == dp.height else None)
        if res is not None:
            self.fail(node, beh, k, "both", "cross-" + res[0], res[1], expected=CMP.frame_rows(dp)[:8], actual=CMP.frame_rows(ds)[:8])

    # ------------------------------------------------------------------
    def step(self, parent: Node, beh, k) -> Node:
        node = Node({bk: s.copy() for bk, s in parent.sides.items()})
        step = beh["steps"][k]
        for bk in self.backends:
            self.run_side(node, beh, k, node.sides[bk], step)
        # keep heaps aligned with the specification's heap also when a side has no table
        if "o" in step:
            for bk in self.backends:
                s = node.sides[bk]
                while len(s.heap) < step["out"]:
                    s.heap.append(None)
                while len(s.frames) < step["out"]:
                    s.frames.append(None)
            self.cross_compare(node, beh, k, step)
        self.stats["steps_new"] += 1
        if any(e.get("ev") == "nontrivial" for e in node.events) or "val" in step:
            self.stats["nontrivial"] += 1
        return node

    def replay(self, beh):
        self.stats["behaviours"] += 1
        rkey = (beh["src"], tuple(beh["srcnames"]))
        if rkey != self.root_key:
            self.root_key = rkey
            self.root = self.make_root(beh)
            self.path = []
        keys = [json.dumps(s["m"], sort_keys=True) for s in beh["steps"]]
        # longest common prefix with the cached path
        c = 0
        while c < len(self.path) and c < len(keys) and self.path[c][0] == keys[c]:
            c += 1
        self.path = self.path[:c]
        node = self.path[-1][1] if self.path else self.root
        for k in range(c, len(keys)):
            node = self.step(node, beh, k)
            self.path.append((keys[k], node))
            for f in node.fails:
                self.failures.append(f)
        self.stats["steps"] += len(keys)


def replay_file(args):
    """Worker entry: replay all behaviours of one chunk file; returns (stats, failures, events-summary)."""
    path, seed, backends, opts = args
    t0 = time.time()
    from . import realize as _R

    _R.SRC_FORM = opts.get("src", "eager")       # before the sources are created
    rp = Replayer(seed, backends=tuple(backends), opts=opts)
    rp.R.ALT_FORMS = bool(opts.get("alt"))
    # "generic": casts to float name the generic type Float() instead of Float64() (only used by the typed alphabet of C12, whose
    # float casts are the implicit conversions Int -> Float; String -> Float() is documented for Float32 / Float64 only)
    rp.R.PDT_TYPES.update({"int": rp.R.pdt.Int64, "float": rp.R.pdt.Float} if opts.get("generic") else {"int": rp.R.pdt.Int64, "float": rp.R.pdt.Float64})
    events = {}
    n = 0
    with open(path) as f:
        for line in f:
            line = line.strip()
            if not line:
                continue
            beh = json.loads(line)
            rp.replay(beh)
            n += 1
    # event summary
    for key, node in rp.path:
        pass
    if opts.get("immut"):
        if rp.B.checksum() != rp.src_checksum:
            rp.failures.append(dict(clause="immut-source", backend="both", step=0, detail="a source frame / SQL table changed during the replay",
                                    src=[], srcidx=0, moves=[], heap_obs=[], beh=None, tainted=False))
    rp.stats["wall"] = time.time() - t0
    return rp.stats, rp.failures


if __name__ == "__main__":
    import sys

    stats, fails = replay_file((sys.argv[1], int(os.environ.get("VERIF_SEED", "0")), ["polars", "sqlite"], {}))
    print(json.dumps(stats))
    from collections import Counter

    c = Counter((f["backend"], f["clause"]) for f in fails)
    for k, v in sorted(c.items()):
        print(k, v)
    for f in fails[:int(os.environ.get("SHOW", "5"))]:
        print(json.dumps(f)[:1500])
