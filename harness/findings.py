"""Feature tags of failing behaviours, signatures, and matching against known_findings.json.

A failure is matched by a `known` entry only if its clause, backend and the feature tags of the
failing step (plus, where the entry says so, of the history before it) match; any other failure
of the same property is still a violation.  `fixed` entries never match anything.
"""
from __future__ import annotations

import hashlib
import json
import os
import re

VERIF = os.path.dirname(os.path.dirname(os.path.abspath(__file__)))
KNOWN_FILE = os.path.join(VERIF, "known_findings.json")


def walk(e):
    """all sub-expressions of a surface expression"""
    if not isinstance(e, dict):
        return
    yield e
    for key in ("a", "f", "part", "fill", "d", "vs"):
        for x in e.get(key, []) or []:
            yield from walk(x)
    for o in e.get("ord", []) or []:
        yield from walk(o["e"])
    for c in e.get("cs", []) or []:
        if isinstance(c, dict) and "c" in c and "v" in c:
            yield from walk(c["c"])
            yield from walk(c["v"])
    if "e" in e and isinstance(e["e"], dict):
        yield from walk(e["e"])


_U64 = None


def _u64_ids():
    """identities of the source columns of type uint64 (no signed integer type holds their range)"""
    global _U64
    if _U64 is None:
        from . import sources as S

        _U64 = {S.col_id(si, ci) for si, s in enumerate(S.all_sources(1)) for ci, (_, ty) in enumerate(s["cols"]) if ty == "uint64"}
    return _U64


def expr_tags(e, vis_ids=None):
    tags = set()
    for x in walk(e):
        k = x.get("k")
        if k == "col" and x.get("id") in _u64_ids():
            tags.add("col:uint64")
        if k == "agg":
            tags.add("expr:agg")
            tags.add("agg:" + x["op"])
            if x.get("f"):
                tags.add("agg:filter")
                tags.add(f"agg:{x['op']}+filter")
            if x.get("pk") == "ids":
                tags.add("agg:partition_by")
        elif k == "win":
            tags.add("expr:win")
            tags.add("win:" + x["op"])
            if not x.get("ord"):
                tags.add("win:noarrange")
            if x.get("pk") == "ids":
                tags.add("win:partition_by")
        elif k == "fn":
            tags.add("op:" + x["op"])
        elif k == "case":
            tags.add("expr:case")
        elif k == "cast":
            tags.add("expr:cast")
            tags.add("cast:" + x["to"])
        elif k == "cname":
            tags.add("ref:cname")
        elif k == "mark":
            tags.add("expr:marker")
        elif k == "lit":
            tags.add("lit:" + x["ty"])
        elif k == "col" and vis_ids is not None and x["id"] not in vis_ids:
            tags.add("ref:hidden")
    return tags


def move_exprs(m):
    v = m["v"]
    if v == "equiv":
        return [x for mm in list(m["lhs"]) + list(m["rhs"]) for x in move_exprs(mm)]
    # trace-level failures (TraceMeta) carry abstract moves: the verb name only
    if v in ("mutate", "summarize"):
        return [kv["e"] for kv in m.get("kv", [])]
    if v == "filter":
        return list(m.get("ps", []))
    if v == "arrange":
        return [o["e"] for o in m.get("os", [])]
    if v == "join":
        return [x for x in m.get("on", []) if x.get("k") != "str"]
    return []


def move_tags(m, in_obs=None):
    """tags of one move; in_obs: observation of its (left) input table, if known"""
    v = m["v"]
    tags = {"v:" + v}
    if set(m) <= {"v", "i", "u64"}:        # abstract move of a trace-level failure: the verb name (and the uint64 flag) is all there is
        if m.get("u64"):
            tags.add("col:uint64")
        return tags
    vis_ids = set(in_obs["ids"]) if in_obs else None
    names = list(in_obs["names"]) if in_obs else None
    for e in move_exprs(m):
        tags |= expr_tags(e, vis_ids)
    if v == "equiv":
        tags.add("equiv:" + m["kind"])
    if v == "resolve":
        tags.add("op:" + m["op"])
        for a in m["args"]:
            tags.add("arg:" + a.replace("c:", ""))
            if a.startswith("c:"):
                tags.add("arg:const")
    if v in ("mutate", "summarize"):
        if names is not None and any(kv["n"] in names for kv in m["kv"]):
            tags.add(v + ":overwrite")
        if in_obs is not None:
            tags.add(v + (":grouped" if in_obs["part"] else ":ungrouped"))
            if v == "summarize" and any(kv["n"] in in_obs["part"] for kv in m["kv"]):
                tags.add("summarize:overwrite-group")
            if v == "mutate" and any(kv["n"] in in_obs["part"] for kv in m["kv"]):
                tags.add("mutate:overwrite-group")
        if len(m["kv"]) > 1:
            tags.add(v + ":multi")
    if v == "select" and in_obs is not None:
        ids = [c.get("id") for c in m["cs"]]
        pos = [in_obs["ids"].index(i) for i in ids if i in in_obs["ids"]]
        if pos != sorted(pos):
            tags.add("select:reorder")
    if v == "slice_head":
        if m["k"] > 0:
            tags.add("slice:offset")
    if v == "arrange":
        for o in m["os"]:
            if o["desc"]:
                tags.add("arrange:desc")
            tags.add("arrange:nulls_" + o["nl"])
    if v == "join":
        tags.add("join:" + m.get("how", "cross"))
    if v == "union" and m.get("distinct"):
        tags.add("union:distinct")
    if v == "alias":
        tags.add("alias:keep" if m.get("keep") else "alias:plain")
    if in_obs is not None:
        if any(p not in in_obs["ids"] for p in in_obs.get("pids", [])):
            tags.add("in:hidden-group")
        if in_obs["part"]:
            tags.add("in:grouped")
        if not in_obs["rows"]:
            tags.add("in:empty")
    return tags


def behaviour_tags(fail, beh_obs):
    """fail: failure record with 'moves' (prefix incl. the failing one).  beh_obs: list of observations
    per heap index (None where unknown).  Returns (last_tags, history_tags)."""
    moves = fail["moves"]
    hist = set()
    heap_obs = list(beh_obs)
    last = set()
    for idx, m in enumerate(moves):
        in_obs = heap_obs[m["i"] - 1] if 0 < m.get("i", 0) <= len(heap_obs) else None
        t = move_tags(m, in_obs)
        if idx == len(moves) - 1:
            last = t
        else:
            hist |= {"h:" + x for x in t}
    return last, hist


def signature(prop, fail, last, hist):
    struct = ("v:", "equiv:", "op:" if "v:resolve" in last else "v:", "mutate:", "summarize:", "select:", "slice:", "expr:", "agg:", "win:", "ref:", "join:", "union:", "alias:", "in:")
    core = dict(p=prop, c=fail["clause"], b=fail["backend"], last=sorted(t for t in last if t.startswith(struct)),
                hv=sorted(x for x in hist if x.startswith("h:v:")))
    if fail.get("exc"):
        core["exc"] = fail["exc"]
    if fail.get("expected") and fail["clause"] == "errclass":
        core["exp"] = fail["expected"]
    return json.dumps(core, sort_keys=True)


def sig_hash(sig: str) -> str:
    return hashlib.sha1(sig.encode()).hexdigest()[:12]


def load_known():
    if not os.path.exists(KNOWN_FILE):
        return []
    with open(KNOWN_FILE) as f:
        data = json.load(f)
    return data.get("findings", [])


def matches(entry, prop, fail, last, hist) -> bool:
    if entry.get("status") != "known":
        return False
    props = entry["property"] if isinstance(entry["property"], list) else [entry["property"]]
    if prop not in props:
        return False
    mt = entry["match"]
    if "clause" in mt and fail["clause"] not in (mt["clause"] if isinstance(mt["clause"], list) else [mt["clause"]]):
        return False
    if "backend" in mt and fail["backend"] not in (mt["backend"] if isinstance(mt["backend"], list) else [mt["backend"]]):
        return False
    if "exc" in mt and fail.get("exc") != mt["exc"]:
        return False
    allt = last | hist
    for need in mt.get("last", []):
        if need not in last:
            return False
    for need in mt.get("any", []):
        if need not in allt:
            return False
    for group in mt.get("oneof", []):
        if not any(x in allt for x in group):
            return False
    for forbid in mt.get("not", []):
        if forbid in allt:
            return False
    if "detail_re" in mt and not re.search(mt["detail_re"], fail.get("detail", "")):
        return False
    return True
