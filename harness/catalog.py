"""Extracts, at check time, from the imported code: the operator catalogue (signatures, vararg flags, declared kind),
the implicit-conversion relation with its costs over the type universe, the range of a type variable
(`implicit_conversions`) and the per-backend implementation table.  Written as Catalog.tla (data only).

What is NOT extracted but fixed in Resolve.tla: the meaning of overload resolution (the unique candidate of minimal
summed lexicographic cost among all instantiations)."""
from __future__ import annotations

import itertools


def universe():
    from pydiverse.common import (Bool, Date, Datetime, Decimal, Duration, Enum, Float, Float32, Float64, Int, Int8,
                                  Int16, Int32, Int64, List, NullType, String, Time, UInt8, UInt16, UInt32, UInt64)

    base = [UInt8(), UInt16(), UInt32(), UInt64(), Int8(), Int16(), Int32(), Int64(), Int(), Float32(), Float64(), Float(),
            Decimal(), Decimal(10, 2), String(), String(5), Enum("a", "b"), Bool(), Date(), Datetime(), Time(), Duration(),
            NullType(), List(Int64())]
    return base


def tok(t) -> str:
    from pydiverse.transform._internal.tree import types

    if types.is_const(t):
        return "c:" + tok(t.base)
    if isinstance(t, types.Tyvar):
        return "S"
    return repr(t).replace(" ", "").replace("None", "").replace("()", "").replace('"', "'")


FAMILY = {}


def family(t) -> str:
    from pydiverse.common import Decimal, Enum, List, String
    from pydiverse.transform._internal.tree import types

    t = types.without_const(t)
    if isinstance(t, types.Tyvar):
        return "S"
    if isinstance(t, List):
        return "List"
    if isinstance(t, Decimal):
        return "Decimal"
    if t.is_int():
        return "Int"
    if t.is_float():
        return "Float"
    if isinstance(t, (String, Enum)):
        return "String"
    return type(t).__name__


def all_types():
    from pydiverse.transform._internal.tree import types

    base = universe()
    return base + [types.Const(b) for b in base]


def operators():
    from pydiverse.transform._internal.ops import ops
    from pydiverse.transform._internal.ops.op import Operator

    out = []
    seen = set()
    for n, o in sorted(vars(ops).items()):
        if isinstance(o, Operator) and id(o) not in seen:
            seen.add(id(o))
            out.append((n, o))
    return out


def tla_str(s):
    return '"' + s + '"'


def tla_seq(xs):
    return "<<" + ", ".join(xs) + ">>"


def catalog_module(max_arity: int = 3) -> tuple[str, dict]:
    from pydiverse.transform._internal.tree import types

    uni = all_types()
    utoks = [tok(t) for t in uni]
    assert len(set(utoks)) == len(utoks), utoks
    ops = operators()
    # every type that occurs as a parameter (after instantiation of S by an implicit conversion it is in `targets`)
    targets = {}
    for t in uni:
        targets[tok(t)] = t
    for _, o in ops:
        for s in o.signatures:
            for p in s.types:
                if not isinstance(types.without_const(p), types.Tyvar):
                    targets[tok(p)] = p
    # range of a type variable: implicit_conversions(without_const(arg)), with and without const
    impl = {}
    for t in uni:
        cands = types.implicit_conversions(types.without_const(t))
        impl[tok(t)] = [tok(c) for c in cands]
        for c in cands:
            targets[tok(c)] = c
            targets[tok(types.with_const(c))] = types.with_const(c)
    conv_lines = []
    nconv = 0
    for t in uni:
        entries = []
        for tt, tv in sorted(targets.items()):
            try:
                ok = types.converts_to(t, tv)
            except Exception:  # noqa: BLE001
                ok = False
            if ok:
                try:
                    c = types.conversion_cost(t, tv)
                    entries.append(f'{tla_str(tt)} :> <<{c[0]}, {c[1]}>>')
                except Exception as e:  # noqa: BLE001
                    entries.append(f'{tla_str(tt)} :> <<-1, -1>>')      # convertible but no cost: internal error in the code
                nconv += 1
        body = " @@ ".join(entries) if entries else "<<>>"
        conv_lines.append(f'    {tla_str(tok(t))} :> ({body})')
    ops_lines = []
    opmeta = []
    for n, o in ops:
        sigs = []
        for s in o.signatures:
            ps = tla_seq(tla_str(tok(p)) for p in s.types)
            sigs.append(f'[ps |-> {ps}, va |-> {"TRUE" if s.is_vararg else "FALSE"}, ret |-> {tla_str(tok(s.return_type))}]')
        ops_lines.append(f'    [name |-> {tla_str(n)}, kind |-> {tla_str(o.ftype.name)}, sigs |-> {tla_seq(sigs)}]')
        opmeta.append(dict(name=n, opname=o.name, nsigs=len(o.signatures),
                           arities=sorted({len(s.types) for s in o.signatures}), vararg=any(s.is_vararg for s in o.signatures)))
    consts = sorted(t for t, v in targets.items() if types.is_const(v))
    baseof = " @@ ".join(f'{tla_str(t)} :> {tla_str(tok(types.without_const(v)))}' for t, v in sorted(targets.items()))
    fam = " @@ ".join(f'{tla_str(t)} :> {tla_str(family(v))}' for t, v in sorted(targets.items()))
    text = (
        "------------------------------ MODULE Catalog ------------------------------\n"
        "(* GENERATED at check time by harness/catalog.py from the imported code -- data only, do not edit. *)\n"
        "EXTENDS TLC, Sequences\n\n"
        f"Universe == {tla_seq(tla_str(t) for t in utoks)}\n\n"
        "(* Conv[source][target] = lexicographic conversion cost, defined exactly for the convertible pairs *)\n"
        "Conv ==\n" + " @@\n".join(conv_lines) + "\n\n"
        "(* the types a type variable may be bound to when it first meets an argument of this type *)\n"
        "ImplConv ==\n" + " @@\n".join(f'    {tla_str(t)} :> {tla_seq(tla_str(c) for c in cs)}' for t, cs in impl.items()) + "\n\n"
        f"Family == {fam}\n\n"
        f"ConstTypes == {{{', '.join(tla_str(t) for t in consts)}}}\n\n"
        f"BaseOf == {baseof} @@ \"S\" :> \"S\" @@ \"c:S\" :> \"S\"\n\n"
        "Ops == <<\n" + ",\n".join(ops_lines) + "\n>>\n"
        "=============================================================================\n"
    )
    return text, dict(universe=utoks, ops=opmeta, nconv=nconv)


def code_outcome(op, sig):
    """What the implementation does for this argument-type tuple."""
    try:
        r = op.return_type(list(sig))
    except Exception as e:  # noqa: BLE001
        return ("error", type(e).__name__)
    if r is None:
        return ("reject", "")
    return ("match", tok(r))


def enumerate_code(max_arity: int, only=None):
    """All (operator, argument-type tuple) outcomes of the code for arity <= max_arity (`only`: restrict to these operator names)."""
    uni = all_types()
    out = {}
    for n, o in operators():
        if only and n not in only:
            continue
        arities = set()
        for s in o.signatures:
            k = len(s.types)
            if s.is_vararg:
                arities |= set(range(max(1, k - 1), max_arity + 1))
            else:
                arities.add(k)
        for k in sorted(a for a in arities if a <= max_arity):
            for tup in itertools.product(uni, repeat=k):
                out[(n, tuple(tok(t) for t in tup))] = code_outcome(o, tup)
    return out


if __name__ == "__main__":
    text, meta = catalog_module()
    print(text[:3000])
    print(meta["nconv"], len(meta["ops"]))
