"""Profiles (TLC model configurations) and per-property checks."""
from __future__ import annotations

import json
import os

MODEL_PROPS = ["MetaAgree", "ObsPure", "HeapAppendOnly", "RowPreserving", "MutateFrame", "FilterSliceSubseq", "SummarizeRows", "ArrangePermutes"]

# index into SrcTables (1-based): 1 t1, 2 t2 (join partner), 3 t3 (union partner), 4 t4 empty, 5 t5 single row,
# 6, 7: seed-generated
LINEAR_SRCS = [1, 4, 5, 6, 7]


def prof(base, moves, depth, srcs=None, heaps="SrcHeapsCore", **kw):
    p = dict(base=base, overrides=dict(Moves=moves, SrcHeaps=heaps),
             defs=dict(MaxDepth=depth, SrcSel=srcs or LINEAR_SRCS, AllowUndef=kw.pop("allow_undef", False)),
             invariants=["ScopeWF"], properties=MODEL_PROPS, timeout=kw.pop("timeout", 600))
    p.update(kw)
    return p


def prof2(moves, depth, pairs, **kw):
    p = dict(base="MC_Heap", overrides=dict(Moves=moves, SrcHeaps="SrcHeapsPair"),
             defs=dict(MaxDepth=depth, SrcPairs=pairs, AllowUndef=False),
             invariants=["WF1", "WF2", "WF3", "WF4", "WF5", "WF6", "WF7", "ScopeWF"], properties=MODEL_PROPS, timeout=kw.pop("timeout", 600))
    p.update(kw)
    return p


PROFILES = {
    "join2": prof2("MovesJoin", 2, [[1, 2], [1, 4], [4, 2], [6, 2]]),
    "joins3": prof2("MovesJoinS", 3, [[1, 2], [6, 2]]),
    "joins4": prof2("MovesJoinS", 4, [[1, 2]]),
    "joinh4": prof2("MovesJoinH", 4, [[1, 2], [6, 2]]),
    "joinz4": prof2("MovesJoinZ", 4, [[1, 2], [6, 2]]),
    "join3": prof2("MovesJoin", 3, [[1, 2], [6, 2]]),
    "union2": prof2("MovesUnion", 2, [[1, 3], [1, 4], [3, 1], [4, 4]]),
    "ref3": prof2("MovesRef", 3, [[1, 2], [6, 2]]),
    "ref4": prof2("MovesRef", 4, [[1, 2]]),
    "reroot3": prof2("MovesReroot", 3, [[1, 1], [6, 6]], overrides=dict(Moves="MovesReroot", SrcHeaps="SrcHeapsOne")),
    "reroot4": prof2("MovesReroot", 4, [[1, 1]], overrides=dict(Moves="MovesReroot", SrcHeaps="SrcHeapsOne")),
    "collectg4": prof2("MovesCollectG", 4, [[1, 1], [6, 6]], overrides=dict(Moves="MovesCollectG", SrcHeaps="SrcHeapsOne")),
    "rerootagg5": prof2("MovesRerootAgg", 5, [[1, 1], [6, 6]], overrides=dict(Moves="MovesRerootAgg", SrcHeaps="SrcHeapsOne")),
    "equiv1": prof2("MovesEquiv", 1, [[1, 2], [1, 3], [6, 2], [4, 2], [5, 3]], invariants=["EquivHolds", "ScopeWF"]),
    "equiv2": prof2("MovesEquiv", 2, [[1, 2], [1, 3], [6, 2], [4, 2], [7, 3]], invariants=["EquivHolds", "ScopeWF"]),
    "equiv_tall": prof2("MovesEquiv", 1, [[9, 2]], invariants=["EquivHolds"]),
    "union3": prof2("MovesUnion", 3, [[1, 3], [3, 6]]),
    "unionh4": prof2("MovesUnionH", 4, [[1, 3], [3, 1]]),
    "unionc5": prof2("MovesUnionC", 5, [[1, 3]]),
    "unions4": prof2("MovesUnionS", 4, [[1, 3]]),
    "unionj4": prof2("MovesUnionJ", 4, [[1, 3], [6, 3]]),
    "core2": prof("MC_Core", "MovesCore", 2),
    "core3": prof("MC_Core", "MovesCore", 3, srcs=[1, 6]),
    "agg3": prof("MC_Focus", "MovesAgg", 3),
    "win2": prof("MC_Focus", "MovesWin", 2),
    "win3": prof("MC_Focus", "MovesWin", 3, srcs=[1, 6]),
    "imm3": prof("MC_Focus", "MovesImm", 3, srcs=[1, 6]),
    "imm4": prof("MC_Focus", "MovesImm", 4, srcs=[1]),
    "fn1": prof("MC_Fn", "MovesFn", 1, srcs=[9], allow_undef=True),
    "fn2": prof("MC_Fn", "MovesFn2", 1, srcs=[9], allow_undef=True),
    "str1": prof("MC_Fn", "MovesStr", 1, srcs=[10], allow_undef=True),
    "cast1": prof("MC_Fn", "MovesCast", 1, srcs=[11], allow_undef=True),
    "gsub4": prof("MC_Focus", "MovesGS", 4, srcs=[1, 6]),
    "regroup5": prof("MC_Focus", "MovesRegroup", 5, srcs=[1, 6]),
    "mixsim": prof("MC_Focus", "MovesMix", 7, srcs=[1, 6, 7], simulate=True, sim_depth=16, num=20000, invariants=[], properties=[], timeout=900),
    "subq4": prof("MC_Focus", "MovesSubq", 4, srcs=[1]),
    "subq5": prof("MC_Focus", "MovesSubq", 5, srcs=[1]),
    "hidsub4": prof("MC_Focus", "MovesHidSub", 4, srcs=[1, 6]),
    "tall2": prof("MC_Focus", "MovesTall", 2, srcs=[12]),
    "ty2": prof("MC_Focus", "MovesTy", 2, srcs=[1, 8, 4, 13]),
    "err2": prof("MC_Focus", "MovesErr", 2, srcs=[1, 4]),
    "err3": prof("MC_Focus", "MovesErr", 3, srcs=[1]),
    "wins3": prof("MC_Focus", "MovesWinS", 3, srcs=[1, 6, 7]),
    "wins4": prof("MC_Focus", "MovesWinS", 4, srcs=[1, 6]),
}

GEN_CLAUSES_SPEC = {"names", "rows", "order", "accept", "export-error", "group"}

CROSS = {"cross-names", "cross-rows", "cross-order"}
SUBQ = {"alias-unblocks", "polars-subquery", "never-needs", "subq-shared"}

CHECKS = {
    # development aid (not registered in MANIFEST.json): the simulation profile alone
    "XSIM": dict(level="model_checking", clauses={"cross-names", "cross-rows", "cross-order", "accept", "export-error", "names", "rows", "order", "group"},
                 phases=dict(quick=[dict(profile="mixsim", num=3200)], thorough=[dict(profile="mixsim")])),
    # development aid (not registered): VERIF_DEV_PHASES='[{"profile": "joinz4"}]' ./check XDEV
    "XDEV": dict(level="model_checking", clauses=GEN_CLAUSES_SPEC | CROSS | {"errclass", "accept", "export-error", "target", "meta", "getname", "equiv", "dtype-static", "dtype-export", "lca", "lca-internal", "chain", "impl-internal", "dialect-internal", "dialect-noselect", "dialect-nondet", "immut-fp", "immut-data", "immut-query", "immut-source"},
                 phases=dict(quick=json.loads(os.environ.get("VERIF_DEV_PHASES", "[]")), thorough=[])),
    "C01": dict(
        level="model_checking",
        clauses=CROSS | {"accept", "export-error"},
        phases=dict(quick=[dict(profile="core2"), dict(profile="agg3"), dict(profile="wins3"), dict(profile="win2"),
                           dict(profile="join2"), dict(profile="joins3"), dict(profile="union2"), dict(profile="tall2"), dict(profile="hidsub4"), dict(profile="fn1"), dict(profile="joinz4")],
                    thorough=[dict(profile="hidsub4"), dict(profile="joinz4"), dict(profile="fn1"), dict(profile="fn2"), dict(profile="str1"), dict(profile="cast1"), dict(profile="core3"), dict(profile="agg3"), dict(profile="win3"), dict(profile="wins4"),
                              dict(profile="join3"), dict(profile="joins4"), dict(profile="union3"), dict(profile="tall2")]),
    ),
    "C06": dict(
        level="model_checking",
        clauses=GEN_CLAUSES_SPEC | {"errclass"},
        phases=dict(quick=[dict(kind="joinnames"), dict(kind="argspace", verbs=["joinrows"]), dict(kind="flatjoin", pre=2), dict(profile="join2"), dict(profile="join2", opts=dict(alt=True)), dict(profile="joins3"), dict(profile="joinh4"), dict(profile="joinz4")],
                    thorough=[dict(kind="argspace", verbs=["joinrows"]), dict(kind="argspace", verbs=["joinrows"], jkeys=[0, 1, 2, 3], jmax=2), dict(kind="joinnames", lu=["a", "b", "a_t2", "b_t2", "a_t2_1", "b_t2_1", "a_t2_2", "a_x"], ru=["a", "b", "c", "a_t2", "b_t2"]),
                              dict(kind="flatjoin", pre=3, pairs=[(1, 2), (6, 2), (7, 2)]), dict(profile="join2"), dict(profile="join3"), dict(profile="joins4"), dict(profile="joinh4"), dict(profile="joinz4")]),
    ),
    "C07": dict(
        level="model_checking",
        clauses=GEN_CLAUSES_SPEC | {"errclass", "lca", "lca-internal"},
        phases=dict(quick=[dict(kind="argspace", verbs=["union"]), dict(kind="lca", max_n=2), dict(profile="union2"), dict(profile="union2", opts=dict(alt=True)), dict(profile="unionh4"), dict(profile="unionc5"), dict(profile="unions4"), dict(profile="unionj4"), dict(profile="reroot3")], thorough=[dict(kind="argspace", verbs=["union"], ucols=["a", "b", "c", "d"]), dict(kind="lca", max_n=2), dict(profile="union2"), dict(profile="union2", opts=dict(alt=True)), dict(profile="union3"), dict(profile="unionh4"), dict(profile="unionc5"), dict(profile="unions4"), dict(profile="unionj4")]),
    ),
    "C08": dict(
        level="model_checking",
        clauses=SUBQ | {"rows", "order", "names", "export-error", "accept", "flat-correct"}, backends={"sqlite"},
        phases=dict(quick=[dict(kind="flat", depth=5), dict(kind="flat", depth=3, paths=True), dict(kind="flat", depth=4, alias=True), dict(kind="flat", depth=4, paths=True, alias=True, srcs=[1]), dict(kind="argspace", verbs=["slices"], sizes=[5], ns=[1, 2, 4], ks=[0, 1, 2]), dict(kind="flatjoin", pre=2), dict(profile="gsub4"), dict(profile="subq4"), dict(profile="wins3"), dict(profile="agg3"), dict(profile="joins3"), dict(profile="joinz4"), dict(profile="union2")],
                    thorough=[dict(profile="subq5"), dict(profile="gsub4"), dict(kind="argspace", verbs=["slices"], ns=[0, 1, 2, 3, 6], ks=[0, 1, 2, 4, 7], sizes=[4, 6]), dict(kind="flat", depth=6, srcs=[1, 6, 7], timeout=1800), dict(kind="flat", depth=4, paths=True), dict(kind="flatjoin", pre=3), dict(profile="wins4"), dict(profile="agg3"), dict(profile="win3"),
                              dict(profile="joins4"), dict(profile="union3")]),
    ),
    "C02": dict(
        level="model_checking",
        clauses=GEN_CLAUSES_SPEC | {"errclass", "chain"},
        phases=dict(quick=[dict(kind="proofs", canary=False), dict(kind="verbnames"), dict(kind="argspace", verbs=["slices"]), dict(kind="argspace", verbs=["arrange", "mutate"], amax=2), dict(profile="core2", opts=dict(chain=True)), dict(profile="ref3"), dict(profile="imm3", opts=dict(pool=True)), dict(profile="subq4"), dict(profile="wins3"), dict(profile="tall2")],
                    thorough=[dict(profile="subq5"), dict(kind="argspace", verbs=["slices"], ns=[0, 1, 2, 3, 6], ks=[0, 1, 2, 4, 7], sizes=[0, 1, 4, 6]), dict(kind="argspace", verbs=["arrange", "mutate"], amax=3), dict(kind="proofs", canary=False), dict(kind="verbnames", cols=["a", "b", "c", "x"], keys=["a", "b", "c", "x", "z"], vals=["a", "b", "c", "x", "y"]), dict(profile="core2"), dict(profile="core3"), dict(profile="imm4", opts=dict(pool=True)), dict(profile="wins4"), dict(profile="tall2"), dict(profile="reroot3")]),
    ),
    "C03": dict(
        level="model_checking",
        clauses={"rows", "order", "names", "accept", "export-error", "cross-rows"},
        phases=dict(quick=[dict(kind="laws"), dict(kind="proofs"), dict(profile="fn1", opts=dict(pool=True)), dict(profile="fn1", opts=dict(alt=True)), dict(profile="str1")],
                    thorough=[dict(kind="laws"), dict(kind="proofs"), dict(profile="fn1", opts=dict(pool=True)), dict(profile="fn1", opts=dict(alt=True)), dict(profile="fn2", opts=dict(pool=True)), dict(profile="fn2", opts=dict(alt=True)), dict(profile="str1")]),
    ),
    "C17": dict(
        level="model_checking",
        clauses={"rows", "order", "names", "accept", "export-error", "cross-rows", "errclass", "cast-accept", "cast-internal"},
        phases=dict(quick=[dict(kind="castmatrix"), dict(profile="cast1"), dict(profile="cast1", opts=dict(src="lazy_ns")), dict(profile="cast1", opts=dict(src="pandas"))],
                    thorough=[dict(kind="castmatrix"), dict(profile="cast1"), dict(profile="cast1", opts=dict(src="lazy_ns")), dict(profile="cast1", opts=dict(src="pandas")), dict(profile="fn1")]),
    ),
    "C18": dict(
        level="model_checking",
        clauses={"rows", "order", "names", "accept", "export-error", "cross-rows"},
        phases=dict(quick=[dict(profile="str1"), dict(profile="str1", opts=dict(alt=True)), dict(kind="argspace", verbs=["arrange"], amax=2)],
                    thorough=[dict(profile="str1"), dict(profile="str1", opts=dict(alt=True)), dict(kind="argspace", verbs=["arrange"], amax=3), dict(profile="fn1"), dict(profile="cast1")]),
    ),
    "C04": dict(
        level="model_checking",
        clauses=GEN_CLAUSES_SPEC,
        phases=dict(quick=[dict(kind="argspace", verbs=["agg"], amax=2), dict(profile="agg3"), dict(profile="gsub4"), dict(profile="regroup5")],
                    thorough=[dict(kind="argspace", verbs=["agg"], amax=3), dict(profile="agg3"), dict(profile="gsub4"), dict(profile="regroup5"), dict(profile="wins4")]),
    ),
    "C05": dict(
        level="model_checking",
        clauses=GEN_CLAUSES_SPEC,
        phases=dict(quick=[dict(kind="argspace", verbs=["win"], wmax=3), dict(kind="argspace", verbs=["slices"], sizes=[5], ns=[1, 2], ks=[0, 1, 3]), dict(profile="win2"), dict(profile="win2", opts=dict(alt=True)), dict(profile="win2", opts=dict(pool=True)), dict(profile="wins3")],
                    thorough=[dict(kind="argspace", verbs=["win"], wmax=4), dict(profile="win2"), dict(profile="win2", opts=dict(pool=True)), dict(profile="win3"), dict(profile="wins4")]),
    ),
    "C09": dict(
        level="model_checking",
        clauses=GEN_CLAUSES_SPEC | {"errclass", "getname"},
        phases=dict(quick=[dict(profile="ref3"), dict(profile="joinh4"), dict(profile="hidsub4")], thorough=[dict(profile="hidsub4"), dict(profile="ref3"), dict(profile="ref4"), dict(profile="joinh4")]),
    ),
    "C12": dict(
        level="model_checking",
        clauses={"dtype-static", "dtype-export", "dtype-roundtrip", "trace-dtype", "trace-export-dtype"},
        phases=dict(quick=[dict(profile="ty2", opts=dict(roundtrip=True)), dict(profile="ty2", opts=dict(roundtrip=True, generic=True)), dict(profile="union3", opts=dict(roundtrip=True)), dict(profile="cast1", opts=dict(roundtrip=True)),
                           dict(kind="tracemeta", profiles=[("ty2", 400), ("agg3", 300), ("union2", 200)])],
                    thorough=[dict(profile="ty2", opts=dict(roundtrip=True)), dict(profile="ty2", opts=dict(roundtrip=True, generic=True)), dict(profile="union2", opts=dict(roundtrip=True)),
                              dict(kind="tracemeta", profiles=[("ty2", 3000), ("agg3", 2000), ("union3", 2000), ("join2", 2000)]),
                              dict(profile="join2", opts=dict(roundtrip=True)),
                              dict(profile="union3", opts=dict(roundtrip=True)), dict(profile="agg3", opts=dict(roundtrip=True))]),
    ),
    "C19": dict(
        level="exploration",
        clauses={"dialect-internal", "dialect-noselect", "dialect-nondet", "impl-internal"},
        phases=dict(quick=[dict(kind="impls", max_arity=2), dict(kind="flatjoin", pre=2), dict(kind="msboolbit", depth=1),
                           dict(profile="core2", backends=("sqlite", "postgres", "mssql"), opts=dict(buildq=True)),
                           dict(profile="agg3", backends=("sqlite", "postgres", "mssql"), opts=dict(buildq=True)),
                           dict(profile="wins3", backends=("sqlite", "postgres", "mssql"), opts=dict(buildq=True)),
                           dict(profile="join2", backends=("sqlite", "postgres", "mssql"), opts=dict(buildq=True)),
                           dict(profile="union2", backends=("sqlite", "postgres", "mssql"), opts=dict(buildq=True)),
                           dict(profile="fn1", backends=("sqlite", "postgres", "mssql"), opts=dict(buildq=True))],
                    thorough=[dict(profile="wins3", backends=("sqlite", "postgres", "mssql"), opts=dict(buildq=True)), dict(kind="impls", max_arity=2), dict(kind="flatjoin", pre=2), dict(kind="msboolbit", depth=2),
                              dict(profile="core3", backends=("sqlite", "postgres", "mssql"), opts=dict(buildq=True)),
                              dict(profile="agg3", backends=("sqlite", "postgres", "mssql"), opts=dict(buildq=True)),
                              dict(profile="win3", backends=("sqlite", "postgres", "mssql"), opts=dict(buildq=True)),
                              dict(profile="ty2", backends=("sqlite", "postgres", "mssql"), opts=dict(buildq=True)),
                              dict(profile="fn1", backends=("sqlite", "postgres", "mssql"), opts=dict(buildq=True)),
                              dict(profile="str1", backends=("sqlite", "postgres", "mssql"), opts=dict(buildq=True)),
                              dict(profile="cast1", backends=("sqlite", "postgres", "mssql"), opts=dict(buildq=True)),
                              dict(profile="join3", backends=("sqlite", "postgres", "mssql"), opts=dict(buildq=True)),
                              dict(profile="union3", backends=("sqlite", "postgres", "mssql"), opts=dict(buildq=True))]),
    ),
    "C20": dict(
        level="model_checking",
        clauses={"target", "dtype-roundtrip", "roundtrip-data"},
        phases=dict(quick=[dict(profile="ty2", opts=dict(roundtrip=True, targets=True)), dict(profile="core2", opts=dict(targets=True)), dict(profile="join2", opts=dict(targets=True))],
                    thorough=[dict(profile="ty2", opts=dict(roundtrip=True, targets=True)), dict(profile="core2", opts=dict(roundtrip=True, targets=True)),
                              dict(profile="agg3", opts=dict(roundtrip=True, targets=True)), dict(profile="join2", opts=dict(targets=True))]),
    ),
    "C13": dict(
        level="model_checking",
        clauses={"resolve", "resolve-internal", "resolve-order", "sized-uniform", "const-accepted", "const-result", "lca", "lca-internal"},
        phases=dict(quick=[dict(kind="resolve", max_arity=2), dict(kind="resolve", max_arity=3, ops=["shift", "clip"]), dict(kind="lca", max_n=2)], thorough=[dict(kind="resolve", max_arity=3, timeout=6000), dict(kind="lca", max_n=3)]),
        rule="every (operator, argument-type tuple) over the 48-type universe up to the arity bound: TLC evaluates the order-free definition on the "
             "extracted catalogue, the code's Operator.return_type / ColFn construction outcome is compared tuple by tuple; distinct = distinct tuples",
    ),
    "C14": dict(
        level="model_checking",
        clauses={"errclass", "accept", "export-error", "lca", "lca-internal"}, export_error_backends={"polars"},
        phases=dict(quick=[dict(kind="verbnames"), dict(kind="lca", max_n=2), dict(profile="err2"), dict(profile="join2"), dict(profile="union2"), dict(profile="union3")],
                    thorough=[dict(kind="verbnames", cols=["a", "b", "c", "x"], keys=["a", "b", "c", "x", "z"], vals=["a", "b", "c", "x", "y"]), dict(kind="lca", max_n=3), dict(profile="err3"), dict(profile="join2"), dict(profile="union3")]),
    ),
    "C15": dict(
        level="model_checking",
        clauses={"equiv", "rows", "names", "accept", "export-error"},
        phases=dict(quick=[dict(profile="equiv2", opts=dict(pool=True)), dict(profile="equiv_tall"), dict(kind="argspace", verbs=["joinrows"], jmax=2)],
                    thorough=[dict(profile="equiv2", opts=dict(pool=True)), dict(profile="equiv2"), dict(profile="equiv_tall")]),
    ),
    "C16": dict(
        level="model_checking",
        clauses=GEN_CLAUSES_SPEC | {"errclass", "getname"},
        phases=dict(quick=[dict(profile="reroot3"), dict(profile="rerootagg5"), dict(profile="collectg4"), dict(profile="hidsub4"), dict(profile="joinz4"), dict(profile="joinh4")],
                    thorough=[dict(profile="reroot3"), dict(profile="reroot4"), dict(profile="rerootagg5"), dict(profile="collectg4"), dict(profile="hidsub4"), dict(profile="joinz4"), dict(profile="joinh4")]),
    ),
    "C10": dict(
        level="model_checking",
        clauses={"immut-fp", "immut-data", "immut-query", "immut-source", "rows", "order", "names", "accept", "group", "chain"},
        phases=dict(quick=[dict(profile="imm3", opts=dict(immut=True, chain=True)), dict(profile="core2", opts=dict(immut=True)),
                           dict(profile="subq4", opts=dict(immut=True)), dict(profile="join2", opts=dict(immut=True)), dict(profile="union3", opts=dict(immut=True))],
                    thorough=[dict(profile="core2", opts=dict(immut=True)), dict(profile="imm4", opts=dict(immut=True)), dict(profile="agg3", opts=dict(immut=True)), dict(profile="subq5", opts=dict(immut=True)),
                              dict(profile="wins3", opts=dict(immut=True)), dict(profile="join2", opts=dict(immut=True)), dict(profile="union3", opts=dict(immut=True))]),
    ),
    "C11": dict(
        level="model_checking",
        clauses={"meta", "trace-names", "trace-group", "trace-export-columns", "trace-unknown-input", "trace-sql-limit",
                 "trace-sql-filtered", "trace-sql-grouped", "trace-dtype", "trace-export-dtype", "names", "errclass", "accept"},
        phases=dict(quick=[dict(kind="cachegraph", stride=4), dict(kind="verbnames"), dict(kind="joinnames"), dict(profile="core2", opts=dict(printing=True)), dict(profile="agg3", opts=dict(printing=True)), dict(profile="join2"), dict(profile="union2"), dict(profile="hidsub4"), dict(profile="reroot3"),
                           dict(kind="tracemeta", profiles=[("core2", 400), ("join2", 300), ("agg3", 300)])],
                    thorough=[dict(profile="hidsub4"), dict(kind="verbnames", cols=["a", "b", "c", "x"], keys=["a", "b", "c", "x", "z"], vals=["a", "b", "c", "x", "y"]),
                              dict(kind="joinnames", lu=["a", "b", "a_t2", "b_t2", "a_t2_1", "b_t2_1", "a_t2_2", "a_x"], ru=["a", "b", "c", "a_t2", "b_t2"]),
                              dict(profile="core3"), dict(profile="join3"), dict(profile="union3"), dict(profile="agg3"), dict(profile="reroot3"),
                              dict(kind="tracemeta", profiles=[("core3", 3000), ("join3", 3000), ("agg3", 2000), ("wins3", 2000), ("reroot3", 2000)])]),
    ),
}

TRUST = ("Trusted: TLC and the CommunityModules Java overrides; polars and SQLite as execution engines; the projection / comparison "
         "code of the replayer (exercised by ./check selftest). Bounded: exhaustive only up to the stated depth, alphabet and data bounds.")

# the thorough tier contains every phase of the quick tier
for _c in CHECKS.values():
    for _ph in _c["phases"]["quick"]:
        if _ph not in _c["phases"]["thorough"]:
            _c["phases"]["thorough"].append(_ph)

MANIFEST_TEXT = {
    "C02": dict(
        text="TLC enumerates every pipeline of the row-level verbs up to the depth bound over the focus alphabets (BFS, history variable), "
             "the specification predicts the complete table after every step, and every distinct prefix is executed on Polars and on SQLite "
             "and compared cell by cell with the prediction (an independent row-by-row semantics, so a defect common to both back ends is caught). "
             "One phase replays with ONE python object per specification expression (an expression kept in a variable and reused across calls); "
             "one composes the verb calls of every prefix into a table-less chain (one chain object per prefix, extended once per continuation) "
             "and compares source >> chain with the step-by-step table. "
             "TLAPS proves the LIMIT / OFFSET composition and the arrange order laws of the value language for all naturals / integers.",
        note=TRUST, technique="TLA+ spec + TLC exhaustive generation, replay on real code against predicted observations; TLAPS proofs of value-language laws"),
    "C04": dict(
        text="TLC enumerates group_by / summarize pipelines over the aggregate focus alphabet (every aggregate, filter=, expressions over "
             "aggregates, computed / boolean / nullable keys, empty and single-row inputs, verb contexts before and after); the specification's "
             "set-comprehension semantics of grouping and aggregation predicts every result, which is compared with Polars and SQLite separately.",
        note=TRUST, technique="TLA+ spec + TLC exhaustive generation, replay on real code against predicted observations"),
    "C05": dict(
        text="TLC enumerates arrange / window-function pipelines (all marker combinations over nullable and duplicated keys, every window function "
             "with partition_by= or group_by, before and after filter / slice_head / mutate / select / rename); order is compared as the sequence "
             "of tie classes the specification derives, window values cell by cell.",
        note=TRUST, technique="TLA+ spec + TLC exhaustive generation, replay on real code against predicted observations"),
    "C01": dict(
        text="Every TLC-generated pipeline (row-level, aggregate, window and two-table alphabets) is executed on a Polars-backed and a "
             "SQLite-backed table built from the same frame; the two exports are compared with each other under the order knowledge the "
             "specification derives (sequence of tie classes after arrange, bag otherwise), and with the specification as arbiter. A SQL-side "
             "SubqueryError / NotSupportedError is the only accepted difference (the run continues behind an inserted alias()).",
        note=TRUST + " SQLite is the only executable SQL engine here.", technique="TLA+ spec + TLC exhaustive generation, replay on real code against predicted observations; differential Polars vs SQLite"),
    "C06": dict(
        text="TLC enumerates two-table behaviours (a preparatory verb on either side, every join kind / predicate shape / suffix mode, verbs and "
             "reachability probes through original references on the result); the specification defines the result as the comprehension over "
             "row pairs plus padding and the documented suffix rule, compared with both back ends. Design level (MC_SqlFlatJoin.tla): TLC compares the "
             "merged SELECT of two pending accumulators with the sequential join for every accepted combination and each counterexample is replayed.",
        note=TRUST, technique="TLA+ spec + TLC exhaustive generation, replay on real code against predicted observations"),
    "C07": dict(
        text="TLC enumerates unions of tables with permuted columns, hidden columns, duplicates, empty sides, type-widening and rejected "
             "configurations, chained unions and verbs before / after; bag / distinct-set semantics of the specification vs both back ends.",
        note=TRUST, technique="TLA+ spec + TLC exhaustive generation, replay on real code against predicted observations"),
    "C08": dict(
        text="For every TLC-generated pipeline on SQLite: an accepted pipeline must equal the specification's sequential meaning; a refusal must be "
             "SubqueryError raised by the verb call; re-running with alias() directly before the refused verb must be accepted and correct; "
             "pipelines of the never-needs class must not be refused; Polars never raises it. Design level: SqlFlat / MC_SqlFlatJoin transcribe "
             "Cache.requires_subquery and TLC checks that every accepted verb / join leaves the flattened SELECT equal to the sequential meaning.",
        note=TRUST, technique="TLA+ spec + TLC exhaustive generation, replay on real code against predicted observations; alias-retry protocol"),
    "C09": dict(
        text="TLC enumerates histories (rename swaps, renames onto hidden names, overwriting mutate, re-created names, joins with suffixing, "
             "alias(keep), collect, summarize) followed by uses of every reference that was ever visible (mutate probe, filter, select, tbl[ref].name, "
             "C.name); the specification resolves references by identity and predicts data or ColumnNotFoundError.",
        note=TRUST, technique="TLA+ spec + TLC exhaustive generation, replay on real code against predicted observations"),
    "C12": dict(
        text="Over a typed alphabet (int / float / bool columns, every operator family that changes a type, case supertypes, null literals, casts, "
             "aggregates, window functions, join padding, union widening) the specification's static type is compared with dtype() and with the "
             "exported polars dtype (exact family on Polars, numeric family on SQLite), and Table(export) must reproduce the types. "
             "Trace validation (TraceMeta.tla, type plane): on the repository's own tests and on generated behaviours every verb must leave the "
             "type of the columns it does not define unchanged and every export must have the static type families.",
        note=TRUST, technique="TLA+ spec + TLC exhaustive generation, replay on real code against predicted observations; dtype / schema oracle; trace validation of recorded executions"),
    "C14": dict(
        text="The alphabets contain every offending construct of the rule list in several syntactic positions after short histories; the "
             "specification's elaboration ladder predicts the exception class raised by the verb call, compared on both back ends; after a "
             "rejection the behaviour continues on the same input table; accepted pipelines must export on Polars.",
        note=TRUST, technique="TLA+ spec + TLC exhaustive generation, replay on real code against predicted observations; exception-class oracle"),
    "C16": dict(
        text="TLC enumerates pipelines before alias / alias(keep_col_refs) / collect / transfer_col_references, self-joins of a derived table "
             "with its alias, and uses of old and new references afterwards; the specification re-roots identities explicitly.",
        note=TRUST, technique="TLA+ spec + TLC exhaustive generation, replay on real code against predicted observations"),
    "C20": dict(
        text="After every step of every generated behaviour all export targets (lazy Polars, Pandas, DictOfLists, ListOfDicts, Dict, Scalar, "
             "ColExpr.export of each column) are compared with export(Polars()), which is compared with the specification; Table(exported) must "
             "reproduce data and types.",
        note=TRUST + " On SQL back ends Pandas export is not implemented (NotImplementedError) and is counted as unavailable, not as a violation.",
        technique="TLA+ spec + TLC exhaustive generation, replay on real code against predicted observations; cross-target oracle"),
    "C10": dict(
        text="Behaviours are replayed with ONE python object per specification expression (shared across verbs, grouping states, mutate and "
             "summarize, and across sibling pipelines); before / after every call a structural fingerprint of every pre-existing table AST, its "
             "metadata and every pooled expression is compared, inputs are re-exported and must equal their first export, build_query twice must "
             "agree, source frames / SQL tables are checksummed, and all results must still equal the specification (HeapAppendOnly, ObsPure on the model).",
        note=TRUST, technique="TLA+ spec (append-only heap, pure observations) + TLC generation, replay with object sharing and fingerprint oracle"),
    "C03": dict(
        text="Operator tables: over a source holding every pair of the integer test values (null, zero, negatives, equal operands), the boolean "
             "pairs and exact binary fractions, TLC computes the complete value table of every element-wise operator in every syntactic form "
             "(column-column, column-literal, literal-column, nested, case expressions, horizontal functions up to 5 arguments); both back ends "
             "are compared with it cell by cell (cells outside the documented fragment are UNDEF and skipped). The algebraic laws of the value "
             "language (truncating division, Kleene logic, ordering markers) are model-checked separately so that the oracle itself is guarded.",
        note=TRUST, technique="TLA+ spec + TLC exhaustive generation, replay on real code against predicted observations; TLC-checked and TLAPS-proved algebraic laws of the oracle", engine="functions"),
    "C13": dict(
        text="Overload resolution is specified order-free (unique minimum of summed lexicographic cost over all instantiations) over a catalogue "
             "and cost graph extracted from the code at check time; TLC evaluates it for every operator and every argument tuple over the 48-type "
             "universe (arity <= 2 quick, <= 3 thorough) together with the uniformity clauses (sized types, const arguments); the code's "
             "Operator.return_type and ColFn construction outcomes are compared tuple by tuple, and re-run under other hash seeds and reversed "
             "declaration order. The model also states when a result is a constant (an element-wise operator of constants only), enumerates "
             "shift and clip at arity 3, and type unification (case branches, union columns: lca_type) is checked against its laws "
             "(total, order-free, null-neutral, idempotent, upper bound, complete and minimal on the simple families: MC_Lca.tla).",
        note=TRUST + " The catalogue is extracted, so a harmless catalogue extension moves code and specification together; the meaning is fixed in Resolve.tla.",
        technique="TLA+ order-free definition + TLC total enumeration, code outcomes compared for every tuple", engine="types"),
    "C15": dict(
        text="Every documented equivalence is a pair of move sequences started from the same table; TLC instantiates them with the alphabets, checks "
             "the invariant EquivHolds on the model, and both sides are executed on both back ends and compared with the specification and with each other.",
        note=TRUST, technique="TLA+ spec + TLC exhaustive generation, replay on real code against predicted observations; equivalence invariant on the model"),
    "C17": dict(
        text="Acceptance: TLC emits the documented cast table over the type universe (ok / reject / unspecified) and every Cast construction - direct "
             "and through a lambda column, where the check is deferred - is compared with it. Values: every documented cast on boundary values "
             "(negative fractions, zero, numerals with sign and leading zeros, nulls, dates with and without time, constant operands) on both back ends.",
        note=TRUST, technique="TLA+ spec + TLC exhaustive generation, replay on real code against predicted observations; cast matrix enumeration", engine="functions"),
    "C18": dict(
        text="Strings are sequences of code points in the specification, so every SQL / LIKE / regex metacharacter is ordinary data; every "
             "pattern over the alphabet (single characters, digraphs, injection-shaped strings) is used as a python literal in every operator "
             "position against column data holding the same characters; both back ends must equal the specification.",
        note=TRUST + " Lower-case letters only (SQLite LIKE is ASCII-case-insensitive, which the library documents with a warning).",
        technique="TLA+ spec + TLC exhaustive generation, replay on real code against predicted observations", engine="functions"),
    "C19": dict(
        text="The specification is used as a program generator: every generated pipeline is bound to offline engines of SQLite, PostgreSQL and SQL Server "
             "(stub DBAPI modules) and build_query is called twice - the outcome must be one SELECT text, twice the same, or NotSupportedError / "
             "SubqueryError; for every operator overload accepted by the type checker get_impl on every backend class incl. Polars must return a "
             "callable or raise NotSupportedError, and every SQL implementation is called on typed columns (a None result compiles to NULL). The "
             "join / union decisions of the design-level model (two stages) are executed on SQLite: build_query must not fail internally. "
             "No oracle for the SQL text: exploration level.",
        note=TRUST + " DuckDB and DB2 plug-ins are not importable in this sandbox.", technique="TLC-generated programs compiled on three dialects; outcome-class oracle"),
    "C11": dict(
        text="For every table of every TLC-generated behaviour, columns(), iteration, len, `in`, dir and (Polars) the printed table / its HTML "
             "form are compared with the exported frame on both back ends; the metadata layer of the specification predicts the same names.",
        note=TRUST, technique="TLA+ spec + TLC exhaustive generation, replay with metadata/export agreement oracle"),
}
