#!/venv/bin/python
"""Confirms every seeded mutant in /verif/seeded/<id>/ against the CURRENT /repo HEAD in a scratch worktree:
patch applies, pinned suite still passes, demo passes on the clean tree and fails with the mutant.
Writes the result into meta.json under "verified".  usage: verify_seeded.py [ids...]"""
import json, os, subprocess, sys, tempfile, shutil

SEEDED = "/verif/seeded"
ids = sys.argv[1:] or sorted(os.listdir(SEEDED))
head = subprocess.check_output(["git", "-C", "/repo", "rev-parse", "--short", "HEAD"], text=True).strip()
for mid in ids:
    d = os.path.join(SEEDED, mid)
    if not os.path.isfile(os.path.join(d, "patch.diff")):
        continue
    wt = tempfile.mkdtemp(prefix="seedchk_", dir="/tmp")
    os.rmdir(wt)
    subprocess.check_call(["git", "-C", "/repo", "worktree", "add", "-q", "--detach", wt, "HEAD"])
    res = dict(repo_head=head)
    try:
        env = dict(os.environ, PYTHONPATH=f"{wt}/src")
        def demo():
            p = subprocess.run(["/venv/bin/python", os.path.join(d, "demo.py")], cwd=wt, env=env, capture_output=True, text=True, timeout=600)
            return p.returncode, (p.stdout + p.stderr)[-300:]
        rc_clean, out_clean = demo()
        res["demo_clean_rc"] = rc_clean
        ap = subprocess.run(["git", "-C", wt, "apply", os.path.join(d, "patch.diff")], capture_output=True, text=True)
        res["applies"] = ap.returncode == 0
        if ap.returncode == 0:
            rc_mut, out_mut = demo()
            res["demo_mutant_rc"] = rc_mut
            res["demo_mutant_tail"] = out_mut
            b = subprocess.run([os.path.join(os.path.dirname(os.path.abspath(__file__)), "baseline.sh"), wt], capture_output=True, text=True, timeout=1200)
            res["baseline"] = b.stdout.strip().splitlines()[0] if b.stdout.strip() else b.stderr[-200:]
        else:
            res["apply_error"] = ap.stderr[-300:]
        res["confirmed"] = bool(res.get("applies") and res.get("demo_clean_rc") == 0 and res.get("demo_mutant_rc") not in (0, None)
                                and str(res.get("baseline", "")).startswith("BASELINE OK"))
    finally:
        subprocess.call(["git", "-C", "/repo", "worktree", "remove", "--force", wt])
        shutil.rmtree(wt, ignore_errors=True)
    mp = os.path.join(d, "meta.json")
    try:
        meta = json.load(open(mp))
    except Exception:
        meta = {}
    meta["verified"] = res
    json.dump(meta, open(mp, "w"), indent=1)
    print(mid, "CONFIRMED" if res["confirmed"] else "NOT-CONFIRMED", {k: v for k, v in res.items() if k in ("applies", "demo_clean_rc", "demo_mutant_rc", "baseline")}, flush=True)
