#!/bin/bash
# usage: baseline.sh <worktree>  -- runs the pinned test-suite against the worktree's sources
# prints "BASELINE OK (64/64 stable tests pass)" or the list of stable tests that no longer pass.
WT=$(realpath "$1")
OUT=$(mktemp /tmp/junit.XXXXXX.xml)
cd "$WT" && PYTHONPATH="$WT/src" /venv/bin/python -m pytest -ra -q -p no:cacheprovider --timeout=900 --continue-on-collection-errors --junitxml="$OUT" >/dev/null 2>&1
PYTHONPATH= /venv/bin/python - "$OUT" <<'PY'
import json, sys, xml.etree.ElementTree as ET
stable = set(json.load(open('/root/.vp/BASELINE.json'))['stable_pass'])
root = ET.parse(sys.argv[1]).getroot()
passed = set()
for tc in root.iter('testcase'):
    if not any(c.tag in ('failure','error','skipped') for c in tc):
        passed.add(tc.get('classname') + '::' + tc.get('name'))
missing = sorted(stable - passed)
if missing:
    print("BASELINE BROKEN: %d stable tests no longer pass:" % len(missing))
    for m in missing: print("  ", m)
    sys.exit(1)
print("BASELINE OK (%d/%d stable tests pass)" % (len(stable & passed), len(stable)))
PY
rc=$?
rm -f "$OUT"
exit $rc
