#!/venv/bin/python
"""Prints the DESIGN.md section 13.1 table from seeded/RESULTS.json and the mutants' meta.json."""
import json, os, sys
BASE = os.path.dirname(os.path.dirname(os.path.abspath(__file__)))
res = json.load(open(sys.argv[1] if len(sys.argv) > 1 else os.path.join(BASE, "seeded", "RESULTS.json")))
print("| change | what it does (needs ...) | caught by (quick tier) |")
print("|---|---|---|")
for mid in sorted(os.listdir(os.path.join(BASE, "seeded"))):
    mp = os.path.join(BASE, "seeded", mid, "meta.json")
    if not os.path.exists(mp):
        continue
    meta = json.load(open(mp))
    if meta.get("status", "").startswith("discarded"):
        st = meta["status"] if len(meta["status"]) > 12 else "discarded: equivalent on the fixed tree"
        print(f"| {mid} | {(meta.get('summary', '') or '').replace('|', '/')[:140]} | {st.replace('|', '/')} |")
        continue
    r = res.get(mid, {})
    caught = ", ".join(r.get("caught_by", [])) or ("**not caught**" if r else "(not run)")
    s = (meta.get("summary", "") or "").replace("|", "/").replace("\n", " ")
    n = (meta.get("needs", "") or "").replace("|", "/").replace("\n", " ")
    print(f"| {mid} | {s[:170]} (needs: {n[:150]}) | {caught} |")
