#!/venv/bin/python
"""Regenerates DESIGN.md section 11.6 (checks and profiles as registered) from harness/registry.py, in place."""
import os, re, sys
BASE = os.path.dirname(os.path.dirname(os.path.abspath(__file__)))
sys.path.insert(0, BASE)
from harness.registry import CHECKS, PROFILES  # noqa: E402


def ph(p):
    if "profile" in p:
        s = p["profile"]
        opts = [k for k in ("immut", "roundtrip", "targets") if p.get(k) or k in (p.get("opts") or ())]
        if opts:
            s += "[" + ",".join(opts) + "]"
        if p.get("backends") and tuple(p["backends"]) != ("polars", "sqlite"):
            s += "{" + ",".join(p["backends"]) + "}"
        return s
    extra = {k: v for k, v in p.items() if k not in ("kind", "timeout")}
    if p["kind"] == "tracemeta":
        return "tracemeta(repo tests + " + ",".join(f"{a}:{b}" for a, b in p.get("profiles", [])) + ")"
    return p["kind"] + ("(" + ",".join(f"{k}={v}" for k, v in extra.items()) + ")" if extra else "")


out = ["### 11.6 Checks as registered (generated from harness/registry.py by tools/design_tables.py)", "",
       "A *phase* is either a generation profile (TLC enumerates the behaviours of the profile, every one is replayed; `[..]` = replay options, "
       "`{..}` = back ends if not Polars + SQLite) or a special phase (`laws`, `resolve`, `castmatrix`, `impls`, `tracemeta`, `flat`, `flatjoin`).", "",
       "| property | quick phases | thorough phases | clauses judged |", "|---|---|---|---|"]
for pid in sorted(k for k in CHECKS if re.fullmatch(r"C\d\d", k)):
    c = CHECKS[pid]
    out.append(f"| {pid} | {', '.join(ph(p) for p in c['phases']['quick'])} | {', '.join(ph(p) for p in c['phases']['thorough'])} | {', '.join(sorted(c['clauses']))} |")
out += ["", "Sources: 1 t1, 2 t2 (join partner), 3 t3 (union partner), 4 t4 (empty), 5 t5 (single row), 6-7 seed-generated, 8 tf (float), "
        "9 tv (operand pairs), 10 ts (strings), 11 tc (cast boundary values), 12 tt (tall), 13 tz (sized types).", "",
        "| profile | module / alphabet | depth | sources |", "|---|---|---|---|"]
for n, p in PROFILES.items():
    d = p["defs"]
    out.append(f"| {n} | {p['base']} / {p['overrides']['Moves']} | {d['MaxDepth']}{' (simulation)' if p.get('simulate') else ''} | {d.get('SrcPairs') or d.get('SrcSel')} |")
out.append("")
path = os.path.join(BASE, "DESIGN.md")
g = open(path).read()
i = g.index("### 11.6 ")
j = g.index("## 12. ", i)
open(path, "w").write(g[:i] + "\n".join(out) + "\n\n" + g[j:])
print("section 11.6 regenerated:", len(out), "lines")
