#!/bin/bash
# usage: tools/run_all.sh quick|thorough [ids...]   -- runs the registered checks one after the other, one summary line each
cd "$(dirname "$0")/.."
tier=${1:-quick}; shift
ids=${@:-C01 C02 C03 C04 C05 C06 C07 C08 C09 C10 C11 C12 C13 C14 C15 C16 C17 C18 C19 C20}
rc_all=0
for c in $ids; do
  out=$(./check $c --tier $tier 2>&1); rc=$?
  echo "$c rc=$rc $(echo "$out" | tail -1 | cut -c1-200)"
  if [ $rc -ne 0 ]; then rc_all=1; echo "$out" | grep -A2 "^VIOLATION" | cut -c1-400 | head -30; echo "$out" | tail -5 | cut -c1-300; fi
done
exit $rc_all
