#!/venv/bin/python
"""Runs registered checks against each confirmed seeded mutant (in a scratch worktree of /repo HEAD, imported via
PYTHONPATH, outputs redirected with VERIF_OUT so that /verif/evidence is untouched) and records which checks catch it.
usage: run_seeded.py [--all-checks | --own-only] [--redo] [ids...]   -> /verif/seeded/RESULTS.json"""
import json, os, subprocess, sys, shutil, time

BASE = os.path.dirname(os.path.dirname(os.path.abspath(__file__)))   # the /verif tree this script belongs to (a snapshot under vp run)
SEEDED = os.path.join(BASE, "seeded")
args = [a for a in sys.argv[1:] if not a.startswith("--")]
all_checks = "--all-checks" in sys.argv
own_only = "--own-only" in sys.argv      # only the check of the property the change was written for
manifest = json.load(open(os.path.join(BASE, "MANIFEST.json")))
claimed = [c["property_id"] for c in manifest["checks"]]
ids = args or sorted(d for d in os.listdir(SEEDED) if os.path.isdir(os.path.join(SEEDED, d)))
resfile = os.path.join(SEEDED, "RESULTS.json")
results = json.load(open(resfile)) if os.path.exists(resfile) else {}
head = subprocess.check_output(["git", "-C", "/repo", "rev-parse", "--short", "HEAD"], text=True).strip()
for mid in ids:
    d = os.path.join(SEEDED, mid)
    meta = json.load(open(os.path.join(d, "meta.json")))
    if not meta.get("verified", {}).get("confirmed"):
        continue
    if mid in results and results[mid].get("caught_by") and results[mid].get("repo_head_run") == head and "--redo" not in sys.argv:
        continue
    prop = mid.split("-")[0]
    wt = f"/tmp/mutrun_{mid}"
    out = f"/tmp/mutout_{mid}"
    shutil.rmtree(out, ignore_errors=True)
    os.makedirs(out)
    subprocess.call(["git", "-C", "/repo", "worktree", "remove", "--force", wt], stderr=subprocess.DEVNULL)
    subprocess.check_call(["git", "-C", "/repo", "worktree", "add", "-q", "--detach", wt, "HEAD"])
    try:
        if subprocess.call(["git", "-C", wt, "apply", os.path.join(d, "patch.diff")]) != 0:
            results[mid] = dict(property=prop, error="patch does not apply to current HEAD (needs re-basing)")
            print(mid, "PATCH DOES NOT APPLY", flush=True)
            continue
        env = dict(os.environ, PYTHONPATH=f"{wt}/src", VERIF_REPO_SRC=f"{wt}/src", VERIF_OUT=out)
        order = ([prop] if prop in claimed else []) + ([] if own_only else [p for p in claimed if p != prop])
        caught = {}
        for p in order:
            t0 = time.time()
            r = subprocess.run([os.path.join(BASE, "check"), p, "--tier", "quick"], env=env, capture_output=True, text=True, timeout=3600)
            viol = [l for l in r.stdout.splitlines() if l.startswith("VIOLATION")]
            caught[p] = dict(rc=r.returncode, violations=len(viol), wall=round(time.time() - t0, 1),
                             first=(r.stdout.splitlines()[r.stdout.splitlines().index(viol[0]) + 1][:300] if viol else ""),
                             err=(r.stderr[-300:] if r.returncode == 2 else ""))
            if r.returncode == 1 and not all_checks:
                break
        results[mid] = dict(property=prop, repo_head_run=head, checks=caught,
                            caught_by=[p for p, v in caught.items() if v["rc"] == 1],
                            machinery_failure=[p for p, v in caught.items() if v["rc"] == 2])
        print(mid, "caught by", results[mid]["caught_by"], "| failures:", results[mid]["machinery_failure"], flush=True)
    finally:
        subprocess.call(["git", "-C", "/repo", "worktree", "remove", "--force", wt])
        shutil.rmtree(wt, ignore_errors=True)
        shutil.rmtree(out, ignore_errors=True)
    json.dump(results, open(resfile, "w"), indent=1)
