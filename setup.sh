#!/bin/sh
# offline setup: verify tools, create scratch dirs
set -e
cd "$(dirname "$0")"
command -v java >/dev/null
test -f /opt/veriftools/tla/tla2tools.jar
/venv/bin/python -c "import polars, sqlalchemy, pydiverse.transform"
mkdir -p .work evidence replays
echo "setup ok"
