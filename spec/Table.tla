-------------------------------- MODULE Table -------------------------------
(***************************************************************************)
(* The abstract table value and the meaning of every single-table verb.    *)
(*                                                                         *)
(* A table value is a record                                               *)
(*   vis  : Seq(ColId)          visible columns in output order            *)
(*   nm   : [ColId -> Name]     names of ALL in-scope columns (a hidden    *)
(*                              column keeps its last name); DOMAIN nm is  *)
(*                              the scope = what a table-bound reference   *)
(*                              may still denote                           *)
(*   ty   : [ColId -> Type]     static types                               *)
(*   fk   : [ColId -> kind]     "e" | "a" | "w": how the column was made   *)
(*   rows : Seq([ColId -> Value])  data of all in-scope columns            *)
(*   part : Seq(ColId)          grouping state                             *)
(*   pcls, scls : Seq(Nat)      what is KNOWN about the row order on the   *)
(*                              Polars / SQL side: nondecreasing class ids,*)
(*                              rows of one class may come in any order    *)
(*   pdef, sdef : BOOLEAN       the data is determined on that side (a     *)
(*                              slice cut through a tie class or an order- *)
(*                              dependent window function without a fixed  *)
(*                              order makes it undetermined from there on) *)
(*   name : table name, root : set of source-table ids it descends from    *)
(*                                                                         *)
(* Every verb is an operator  V(t, args, nid)  returning                   *)
(*   [ok |-> TRUE, t |-> table']  or  [ok |-> FALSE, cls |-> "<exception>"]*)
(* where nid is the next fresh column identity.                            *)
(***************************************************************************)
EXTENDS Expr, Functions

Ok(t)    == [ok |-> TRUE, t |-> t]
Fail(c)  == [ok |-> FALSE, cls |-> c]

Scope(t)    == DOMAIN t.nm
VisSet(t)   == {t.vis[i] : i \in DOMAIN t.vis}
VisNames(t) == {t.nm[c] : c \in VisSet(t)}
ByName(t)   == [n \in VisNames(t) |-> CHOOSE c \in VisSet(t) : t.nm[c] = n]
NamesOf(t)  == [i \in DOMAIN t.vis |-> t.nm[t.vis[i]]]

Cx(t, aggwin) == [ty |-> t.ty, fk |-> t.fk, scope |-> Scope(t), byname |-> ByName(t),
                  part |-> t.part, aggwin |-> aggwin]

AllOnes(n) == [i \in 1..n |-> 1]
Iota(n)    == [i \in 1..n |-> i]
Distinct(s) == \A i, j \in DOMAIN s : i # j => s[i] # s[j]

(* a source table: cols[i] = [id, nm, ty], data = rows as sequences of values in column order *)
Source(cols, data, name, rootId) ==
    LET ids  == {cols[i].id : i \in DOMAIN cols}
        ix(c) == CHOOSE i \in DOMAIN cols : cols[i].id = c
    IN
    [ vis  |-> [i \in DOMAIN cols |-> cols[i].id],
      nm   |-> [c \in ids |-> cols[ix(c)].nm],
      ty   |-> [c \in ids |-> cols[ix(c)].ty],
      fk   |-> [c \in ids |-> "e"],
      rows |-> [r \in DOMAIN data |-> [c \in ids |-> data[r][ix(c)]]],
      part |-> <<>>,
      pcls |-> Iota(Len(data)), scls |-> AllOnes(Len(data)),
      pdef |-> TRUE, sdef |-> TRUE,
      name |-> name, root |-> {rootId}, loose |-> FALSE, cst |-> {} ]

HasUndef(t) == \E r \in DOMAIN t.rows : \E c \in Scope(t) : IsU(t.rows[r][c])

(* resolve a column argument (Col / C.name / bare string) of select, drop, group_by ... *)
RefId(t, r) == IF r.k = "col" THEN r.id ELSE ByName(t)[r.n]
RefKnown(t, r) == IF r.k = "col" THEN r.id \in Scope(t) ELSE r.n \in VisNames(t)
RefVisible(t, r) == IF r.k = "col" THEN r.id \in VisSet(t) ELSE r.n \in VisNames(t)

---------------------------------------------------------------------------
(* select / drop / rename : only visibility and names change *)

Select(t, cs) ==
    IF \E i \in DOMAIN cs : ~RefVisible(t, cs[i]) THEN Fail("ColumnNotFoundError")
    ELSE Ok([t EXCEPT !.vis = [i \in DOMAIN cs |-> RefId(t, cs[i])]])

Drop(t, cs) ==
    IF \E i \in DOMAIN cs : ~RefKnown(t, cs[i]) THEN Fail("ColumnNotFoundError")
    ELSE LET gone == {RefId(t, cs[i]) : i \in DOMAIN cs} IN
         Ok([t EXCEPT !.vis = SelectSeq(t.vis, LAMBDA c : c \notin gone)])

(* m : Seq([c |-> ref | [k |-> "str", n |-> name], n |-> new name]) *)
Rename(t, m) ==
    LET known(r) == IF r.k = "col" THEN r.id \in VisSet(t) ELSE r.n \in VisNames(t)
        idOf(r)  == IF r.k = "col" THEN r.id ELSE ByName(t)[r.n]
    IN
    IF \E i \in DOMAIN m : m[i].c.k = "col" /\ m[i].c.id \notin Scope(t) THEN Fail("ColumnNotFoundError")
    ELSE IF \E i \in DOMAIN m : m[i].c.k = "cname" /\ m[i].c.n \notin VisNames(t) THEN Fail("ColumnNotFoundError")
    ELSE IF \E i \in DOMAIN m : ~known(m[i].c) THEN Fail("ValueError")
    ELSE LET ren  == {idOf(m[i].c) : i \in DOMAIN m}
             newn(c) == m[CHOOSE i \in DOMAIN m : idOf(m[i].c) = c].n
             nm2  == [c \in Scope(t) |-> IF c \in ren THEN newn(c) ELSE t.nm[c]]
             vn   == [i \in DOMAIN t.vis |-> nm2[t.vis[i]]]
         IN IF ~Distinct(vn) THEN Fail("ValueError")
            ELSE Ok([t EXCEPT !.nm = nm2])

---------------------------------------------------------------------------
(* mutate: one new column per keyword, every right-hand side evaluated in  *)
(* the pre-state; an overwritten column becomes hidden (it stays in scope  *)
(* for table-bound references), the new one is appended.                   *)

RECURSIVE OrderSens(_)
(* does the elaborated expression depend on the *current row order*        *)
(* (row_number / shift without arrange=)                                   *)
OrderSens(e) ==
    CASE e.k = "win" -> (e.ord = <<>> /\ e.op \in {"row_number", "shift", "cum_sum"})
                        \/ (\E i \in DOMAIN e.a : OrderSens(e.a[i]))
      [] e.k = "fn"  -> \E i \in DOMAIN e.a : OrderSens(e.a[i])
      [] e.k = "agg" -> \E i \in DOMAIN e.a : OrderSens(e.a[i])
      [] e.k = "case" -> (\E i \in DOMAIN e.cs : OrderSens(e.cs[i].c) \/ OrderSens(e.cs[i].v))
                         \/ (\E i \in DOMAIN e.d : OrderSens(e.d[i]))
      [] e.k = "cast" -> OrderSens(e.e)
      [] OTHER -> FALSE

(* kvs : Seq([n |-> name, e |-> expr]) *)
Mutate(t, kvs, nid) ==
    LET es  == [i \in DOMAIN kvs |-> El(kvs[i].e, Cx(t, TRUE))]
        fe  == FirstErr(es)
    IN
    IF fe # <<>> THEN Fail(fe[1].cls)
    ELSE
    LET newid(i) == nid + i - 1
        newids == {newid(i) : i \in DOMAIN kvs}
        names  == {kvs[i].n : i \in DOMAIN kvs}
        ixOf(c) == c - nid + 1
        keep   == SelectSeq(t.vis, LAMBDA c : t.nm[c] \notin names)
        osens  == \E i \in DOMAIN es : OrderSens(es[i])
    IN Ok([t EXCEPT
            !.vis  = keep \o [i \in DOMAIN kvs |-> newid(i)],
            !.nm   = [c \in Scope(t) \cup newids |-> IF c \in newids THEN kvs[ixOf(c)].n ELSE t.nm[c]],
            !.ty   = [c \in Scope(t) \cup newids |-> IF c \in newids THEN es[ixOf(c)].ty ELSE t.ty[c]],
            !.fk   = [c \in Scope(t) \cup newids |-> IF c \in newids THEN es[ixOf(c)].fk ELSE t.fk[c]],
            !.rows = [r \in DOMAIN t.rows |->
                        [c \in Scope(t) \cup newids |->
                            IF c \in newids THEN Ev(es[ixOf(c)], t.rows, r) ELSE t.rows[r][c]]],
            !.pdef = t.pdef /\ (osens => Distinct(t.pcls)),
            !.sdef = t.sdef /\ ~osens,
            !.cst  = t.cst \cup {newid(i) : i \in {j \in DOMAIN kvs : IsConstExpr(kvs[j].e)}} ])

---------------------------------------------------------------------------
(* filter: keep exactly the rows on which every predicate is TRUE *)

KeepIdx(s, keep) == SelectSeq(Iota(Len(s)), LAMBDA i : i \in keep)
SubSeqBy(s, keep) == LET ix == KeepIdx(s, keep) IN [p \in DOMAIN ix |-> s[ix[p]]]

Filter(t, ps) ==
    LET es == [i \in DOMAIN ps |-> El(ps[i], Cx(t, TRUE))]
        fe == FirstErr(es)
    IN
    IF fe # <<>> THEN Fail(fe[1].cls)
    ELSE IF \E i \in DOMAIN es : es[i].ty # "bool" THEN Fail("DataTypeError")
    ELSE IF \E i \in DOMAIN es : HasAggWinOp(es[i]) THEN Fail("FunctionTypeError")
    ELSE
    LET pv(r) == [i \in DOMAIN es |-> Ev(es[i], t.rows, r)]
        bad  == \E r \in DOMAIN t.rows : SeqAnyU(pv(r))
        keep == {r \in DOMAIN t.rows : \A i \in DOMAIN es : Ev(es[i], t.rows, r) = TRUE}
    IN IF bad THEN Fail("UNDEF")
       ELSE Ok([t EXCEPT !.rows = SubSeqBy(t.rows, keep),
                         !.pcls = SubSeqBy(t.pcls, keep),
                         !.scls = SubSeqBy(t.scls, keep)])

---------------------------------------------------------------------------
(* arrange: stable sort; a later arrange takes priority, the earlier order *)
(* breaks ties.  os : Seq([e, desc, nl]) with nl \in {"first","last","none"} *)

(* class ids after sorting: position p starts a new class unless it ties   *)
(* with p-1 on all keys AND was in the same class before                   *)
RECURSIVE ReCls(_, _, _, _)
ReCls(n, tie(_, _), old, acc) ==
    IF Len(acc) = n THEN acc
    ELSE LET p == Len(acc) + 1 IN
         ReCls(n, tie, old,
               Append(acc, IF p = 1 THEN 1
                           ELSE IF tie(p - 1, p) /\ old[p - 1] = old[p] THEN acc[p - 1] ELSE acc[p - 1] + 1))

Arrange(t, os) ==
    LET es == [i \in DOMAIN os |-> [e |-> El(os[i].e, Cx(t, TRUE)), desc |-> os[i].desc,
                                    nl |-> IF os[i].nl = "none" THEN "first" ELSE os[i].nl]]
        fe == FirstErr([i \in DOMAIN es |-> es[i].e])
    IN
    IF os = <<>> THEN Fail("TypeError")
    ELSE IF fe # <<>> THEN Fail(fe[1].cls)
    ELSE
    LET n  == Len(t.rows)
        K  == [r \in 1..n |-> KeyVals(es, t.rows, r)]
        undef == \/ \E r \in 1..n : SeqAnyU(K[r])
                 \* without a marker the position of nulls is backend dependent
                 \/ \E r \in 1..n : \E q \in DOMAIN os : os[q].nl = "none" /\ IsN(K[r][q])
        lt(a, b) == BeforeKV(es, K[a], K[b], 1) \/ (~BeforeKV(es, K[b], K[a], 1) /\ a < b)
        perm == SortSeq(Iota(n), lt)
        tie(p, q) == TieKV(es, K[perm[p]], K[perm[q]])
        oldp == [p \in 1..n |-> t.pcls[perm[p]]]
        olds == [p \in 1..n |-> t.scls[perm[p]]]
    IN IF undef THEN Fail("UNDEF")
       ELSE Ok([t EXCEPT !.rows = [p \in 1..n |-> t.rows[perm[p]]],
                         !.pcls = ReCls(n, tie, oldp, <<>>),
                         !.scls = ReCls(n, tie, olds, <<>>)])

---------------------------------------------------------------------------
(* slice_head(n, offset = k): rows k+1 .. k+n of the current order *)

CutClean(cls, c) == c <= 0 \/ c >= Len(cls) \/ cls[c] # cls[c + 1]

SliceHead(t, n, k) ==
    IF t.part # <<>> THEN Fail("ValueError")
    ELSE LET len == Len(t.rows)
             lo  == MinI(k, len)
             hi  == MinI(k + n, len)
             keep == (lo + 1)..hi
         IN Ok([t EXCEPT !.rows = SubSeqBy(t.rows, keep),
                         !.pcls = SubSeqBy(t.pcls, keep),
                         !.scls = SubSeqBy(t.scls, keep),
                         !.pdef = t.pdef /\ CutClean(t.pcls, lo) /\ CutClean(t.pcls, hi),
                         !.sdef = t.sdef /\ CutClean(t.scls, lo) /\ CutClean(t.scls, hi)])

---------------------------------------------------------------------------
(* group_by / ungroup: no data changes *)

(* a column named several times (or one the table is grouped by already, with add) counts once *)
RECURSIVE AppendNew(_, _)
AppendNew(base, ids) ==
    IF ids = <<>> THEN base
    ELSE AppendNew(IF \E q \in DOMAIN base : base[q] = Head(ids) THEN base ELSE Append(base, Head(ids)), Tail(ids))

GroupBy(t, cs, add) ==
    IF \E i \in DOMAIN cs : cs[i].k = "col" /\ cs[i].id \notin VisSet(t) THEN Fail("ValueError")
    ELSE IF \E i \in DOMAIN cs : ~RefVisible(t, cs[i]) THEN Fail("ColumnNotFoundError")
    ELSE LET ids == [i \in DOMAIN cs |-> RefId(t, cs[i])] IN
         Ok([t EXCEPT !.part = AppendNew(IF add THEN t.part ELSE <<>>, ids)])

Ungroup(t) == Ok([t EXCEPT !.part = <<>>])

---------------------------------------------------------------------------
(* summarize: one row per distinct combination of grouping values (null is *)
(* a value of its own); exactly one row when ungrouped, also for empty     *)
(* input; result = grouping columns followed by the aggregates.            *)

RECURSIVE SummOk(_, _, _)
(* check_summarize_col_expr: a column that is neither a grouping column    *)
(* nor below an aggregate, or a window operator, is rejected               *)
SummOk(e, part, under) ==
    CASE e.k = "col"  -> under \/ e.id \in {part[i] : i \in DOMAIN part}
      [] e.k = "win"  -> FALSE
      [] e.k = "agg"  -> (\A i \in DOMAIN e.a : SummOk(e.a[i], part, TRUE))
                         /\ (\A i \in DOMAIN e.f : SummOk(e.f[i], part, TRUE))
      [] e.k = "fn"   -> \A i \in DOMAIN e.a : SummOk(e.a[i], part, under)
      [] e.k = "case" -> (\A i \in DOMAIN e.cs : SummOk(e.cs[i].c, part, under) /\ SummOk(e.cs[i].v, part, under))
                         /\ (\A i \in DOMAIN e.d : SummOk(e.d[i], part, under))
      [] e.k = "cast" -> SummOk(e.e, part, under)
      [] OTHER -> TRUE

SameGroup(t, a, b) == \A q \in DOMAIN t.part : SameKey(t.ty[t.part[q]], t.rows[a][t.part[q]], t.rows[b][t.part[q]])

Summarize(t, kvs, nid) ==
    LET es == [i \in DOMAIN kvs |-> El(kvs[i].e, Cx(t, FALSE))]
        fe == FirstErr(es)
    IN
    IF kvs = <<>> /\ t.part = <<>> THEN Fail("ValueError")
    ELSE IF fe # <<>> THEN Fail(fe[1].cls)
    ELSE IF \E i \in DOMAIN es : ~SummOk(es[i], t.part, FALSE) THEN Fail("FunctionTypeError")
    ELSE
    LET newid(i) == nid + i - 1
        newids == {newid(i) : i \in DOMAIN kvs}
        names  == {kvs[i].n : i \in DOMAIN kvs}
        ixOf(c) == c - nid + 1
        gcols  == SelectSeq(t.part, LAMBDA c : t.nm[c] \notin names)
        gset   == {gcols[i] : i \in DOMAIN gcols}
        sc     == gset \cup newids
        n      == Len(t.rows)
        reps   == IF t.part = <<>> THEN <<0>>
                  ELSE SelectSeq(Iota(n), LAMBDA r : \A q \in 1..(r - 1) : ~SameGroup(t, q, r))
    IN Ok([t EXCEPT
            !.vis  = gcols \o [i \in DOMAIN kvs |-> newid(i)],
            !.nm   = [c \in sc |-> IF c \in newids THEN kvs[ixOf(c)].n ELSE t.nm[c]],
            !.ty   = [c \in sc |-> IF c \in newids THEN es[ixOf(c)].ty ELSE t.ty[c]],
            !.fk   = [c \in sc |-> IF c \in newids THEN es[ixOf(c)].fk ELSE t.fk[c]],
            !.rows = [g \in DOMAIN reps |->
                        [c \in sc |-> IF c \in newids THEN Ev(es[ixOf(c)], t.rows, reps[g])
                                      ELSE t.rows[reps[g]][c]]],
            !.part = <<>>,
            !.pcls = AllOnes(Len(reps)), !.scls = AllOnes(Len(reps)) ])

---------------------------------------------------------------------------
(* alias / collect: re-root a table without changing visible data          *)

(* plain alias(): every in-scope column gets a fresh identity (ids nid ..), *)
(* the result is an independent table (its own root); alias(keep_col_refs= *)
(* TRUE) only changes the table name.                                      *)
Alias(t, name, keep, nid) ==
    IF keep THEN Ok([t EXCEPT !.name = name])
    ELSE
    LET old  == SetToSortSeq(Scope(t), <)
        pos(c) == CHOOSE i \in DOMAIN old : old[i] = c
        new(c) == nid + pos(c) - 1
        newset == {new(c) : c \in Scope(t)}
        inv(d) == old[d - nid + 1]
    IN Ok([t EXCEPT
            !.vis  = [i \in DOMAIN t.vis |-> new(t.vis[i])],
            !.nm   = [d \in newset |-> t.nm[inv(d)]],
            !.ty   = [d \in newset |-> t.ty[inv(d)]],
            !.fk   = [d \in newset |-> t.fk[inv(d)]],
            !.rows = [r \in DOMAIN t.rows |-> [d \in newset |-> t.rows[r][inv(d)]]],
            !.part = [i \in DOMAIN t.part |-> new(t.part[i])],
            !.name = name,
            !.root = {1000 + nid},
            !.cst  = {new(c) : c \in t.cst \cap Scope(t)} ])
AliasNew(t, keep) == IF keep THEN 0 ELSE Cardinality(Scope(t))

(* collect(): materialise; only the visible columns survive.  keep_col_refs=TRUE keeps the *)
(* identities of the visible columns and the grouping; FALSE gives a brand-new table.      *)
Collect(t, keep, nid) ==
    LET V == VisSet(t) IN
    IF keep
    THEN Ok([t EXCEPT !.nm = [c \in V |-> t.nm[c]], !.ty = [c \in V |-> t.ty[c]], !.fk = [c \in V |-> "e"],
                      !.rows = [r \in DOMAIN t.rows |-> [c \in V |-> t.rows[r][c]]],
                      !.part = SelectSeq(t.part, LAMBDA c : c \in V),
                      !.root = t.root \cup {1000 + nid}])
    ELSE
    LET new(i) == nid + i - 1
        newset == {new(i) : i \in DOMAIN t.vis}
    IN Ok([t EXCEPT
            !.vis  = [i \in DOMAIN t.vis |-> new(i)],
            !.nm   = [d \in newset |-> t.nm[t.vis[d - nid + 1]]],
            !.ty   = [d \in newset |-> t.ty[t.vis[d - nid + 1]]],
            !.fk   = [d \in newset |-> "e"],
            !.rows = [r \in DOMAIN t.rows |-> [d \in newset |-> t.rows[r][t.vis[d - nid + 1]]]],
            !.part = <<>>,
            !.root = {1000 + nid} ])
CollectNew(t, keep) == IF keep THEN 0 ELSE Len(t.vis)


---------------------------------------------------------------------------
(* join: exactly the pairs of rows satisfying `on` (null never equals      *)
(* anything), plus null-padded unmatched rows for left / full.             *)

(* strings as sequences are not available here: suffixing is name ++ suffix on TLC strings *)
Concat(a, b) == a \o b

RECURSIVE OnRefs(_)
OnRefs(e) ==      \* column ids referenced by an elaborated expression
    CASE e.k = "col" -> {e.id}
      [] e.k = "fn" -> UNION {OnRefs(e.a[i]) : i \in DOMAIN e.a}
      [] e.k = "case" -> UNION ({OnRefs(e.cs[i].c) \cup OnRefs(e.cs[i].v) : i \in DOMAIN e.cs} \cup {OnRefs(e.d[i]) : i \in DOMAIN e.d})
      [] e.k = "cast" -> OnRefs(e.e)
      [] OTHER -> {}

RECURSIVE Conjuncts(_)
Conjuncts(e) == IF e.k = "fn" /\ e.op = "and" THEN Conjuncts(e.a[1]) \o Conjuncts(e.a[2]) ELSE <<e>>

(* on : Seq(expr | [k |-> "str", n |-> name]);  usfx: "" or the user-given suffix *)
Join(l, r, on, how, usfx) ==
    IF l.part # <<>> \/ r.part # <<>> THEN Fail("ValueError")
    ELSE IF l.root \cap r.root # {} THEN Fail("ValueError")
    ELSE IF Scope(l) \cap Scope(r) # {} THEN Fail("UNDEF")   \* e.g. a table joined with one that carries its transferred references
    ELSE
    LET ln == VisNames(l)
        rn == VisNames(r)
        \* bare strings: left[n] == right[n]; C.n resolves to the unique side that has it
        strBad == \E i \in DOMAIN on : on[i].k = "str" /\ (on[i].n \notin ln \/ on[i].n \notin rn)
        on1 == [i \in DOMAIN on |-> IF on[i].k = "str" /\ ~strBad
                                    THEN [k |-> "fn", op |-> "eq", a |-> <<[k |-> "col", id |-> ByName(l)[on[i].n]],
                                                                           [k |-> "col", id |-> ByName(r)[on[i].n]]>>]
                                    ELSE on[i]]
        both == ln \cap rn
        byn  == [n \in (ln \cup rn) \ both |-> IF n \in ln THEN ByName(l)[n] ELSE ByName(r)[n]]
        cx   == [ty |-> l.ty @@ r.ty, fk |-> l.fk @@ r.fk, scope |-> Scope(l) \cup Scope(r), byname |-> byn,
                 part |-> <<>>, aggwin |-> FALSE]
    IN
    IF strBad THEN Fail("ColumnNotFoundError")
    ELSE
    LET es == [i \in DOMAIN on1 |-> El(on1[i], cx)]
        fe == FirstErr(es)
    IN
    IF fe # <<>> THEN Fail(IF fe[1].cls = "ColumnNotFoundError" THEN "ValueError" ELSE fe[1].cls)
    ELSE IF \E i \in DOMAIN es : es[i].ty # "bool" THEN Fail("DataTypeError")
    ELSE
    LET sfxAuto == Concat("_", r.name)
        \* names of the right columns after the documented suffix rule
        userClash == usfx # "" /\ \E n \in rn : Concat(n, usfx) \in ln
        onIds == UNION {OnRefs(es[i]) : i \in DOMAIN es}
        rOnNames == {r.nm[c] : c \in VisSet(r) \cap onIds}
        onlyJoinClash == ((rn \ rOnNames) \cap ln) = {}
        \* "If this still does not resolve all name collisions, additionally an integer is appended": the smallest one for
        \* which no renamed column collides with a left column or with a right column that keeps its name (F28)
        renamed == IF onlyJoinClash THEN both ELSE rn
        taken == ln \cup (rn \ renamed)
        SfxK(k) == IF k = 0 THEN sfxAuto ELSE Concat(sfxAuto, Concat("_", ToString(k)))
        needK(k) == \E n \in renamed : Concat(n, SfxK(k)) \in taken
        kInt == CHOOSE k \in 0..20 : ~needK(k) /\ \A j \in 0..(k - 1) : needK(j)
        sfxEff == SfxK(kInt)
        newName(c) ==
            IF c \notin VisSet(r) THEN r.nm[c]
            ELSE IF usfx # "" THEN Concat(r.nm[c], usfx)
            ELSE IF both = {} THEN r.nm[c]
            ELSE IF onlyJoinClash THEN (IF r.nm[c] \in ln THEN Concat(r.nm[c], sfxEff) ELSE r.nm[c])
            ELSE Concat(r.nm[c], sfxEff)
        conj == Flat([i \in DOMAIN es |-> Conjuncts(es[i])])
        allEq == \A i \in DOMAIN conj : conj[i].k = "fn" /\ conj[i].op = "eq"
    IN
    IF userClash THEN Fail("ValueError")
    ELSE IF how = "full" /\ ~allEq THEN Fail("ValueError")
    ELSE IF \E i \in DOMAIN es : HasAggWinOp(es[i]) THEN Fail("FunctionTypeError")
    ELSE
    LET sc   == Scope(l) \cup Scope(r)
        nl_  == Len(l.rows)
        nr_  == Len(r.rows)
        pair(a, b) == [c \in sc |-> IF c \in Scope(l) THEN l.rows[a][c] ELSE r.rows[b][c]]
        padL(b) == [c \in sc |-> IF c \in Scope(r) THEN r.rows[b][c] ELSE NULL]
        padR(a) == [c \in sc |-> IF c \in Scope(l) THEN l.rows[a][c] ELSE NULL]
        okv(a, b) == [i \in DOMAIN es |-> Ev(es[i], <<pair(a, b)>>, 1)]
        match(a, b) == \A i \in DOMAIN es : okv(a, b)[i] = TRUE
        undef == \E a \in 1..nl_ : \E b \in 1..nr_ : SeqAnyU(okv(a, b))
        matched == Flat([a \in 1..nl_ |-> SelectSeq([b \in 1..nr_ |-> <<a, b>>], LAMBDA p : match(p[1], p[2]))])
        lun == SelectSeq(Iota(nl_), LAMBDA a : \A b \in 1..nr_ : ~match(a, b))
        run == SelectSeq(Iota(nr_), LAMBDA b : \A a \in 1..nl_ : ~match(a, b))
        rows == [p \in DOMAIN matched |-> pair(matched[p][1], matched[p][2])]
                \o (IF how \in {"left", "full"} THEN [p \in DOMAIN lun |-> padR(lun[p])] ELSE <<>>)
                \o (IF how = "full" THEN [p \in DOMAIN run |-> padL(run[p])] ELSE <<>>)
    IN
    IF undef THEN Fail("UNDEF")
    ELSE Ok([ vis  |-> l.vis \o r.vis,
              nm   |-> [c \in sc |-> IF c \in Scope(l) THEN l.nm[c] ELSE newName(c)],
              ty   |-> l.ty @@ r.ty,
              fk   |-> l.fk @@ r.fk,
              rows |-> rows,
              part |-> <<>>,
              pcls |-> AllOnes(Len(rows)), scls |-> AllOnes(Len(rows)),
              pdef |-> l.pdef /\ r.pdef, sdef |-> l.sdef /\ r.sdef,
              name |-> l.name, root |-> l.root \cup r.root,
              loose |-> (usfx = "" /\ both # {} /\ kInt > 0), cst |-> l.cst \cup r.cst ])

---------------------------------------------------------------------------
(* union: rows of both tables matched by column NAME under the left        *)
(* table's names and order; distinct removes duplicates (nulls equal);     *)
(* hidden columns of either side do not survive.                           *)
TyCompat(a, b) == JoinTy(a, b) # "ERR"

RowEqOn(cs, tys, x, y) == \A i \in DOMAIN cs : SameKey(tys[i], x[cs[i]], y[cs[i]])

Union(l, r, distinct) ==
    IF l.part # <<>> \/ r.part # <<>> THEN Fail("ValueError")
    ELSE IF VisNames(l) # VisNames(r) THEN Fail("ValueError")
    ELSE IF \E n \in VisNames(l) : ~TyCompat(l.ty[ByName(l)[n]], r.ty[ByName(r)[n]]) THEN Fail("TypeError")
    ELSE
    LET V   == VisSet(l)
        rOf(c) == ByName(r)[l.nm[c]]
        tys == [i \in DOMAIN l.vis |-> JoinTy(l.ty[l.vis[i]], r.ty[rOf(l.vis[i])])]
        jt(c) == JoinTy(l.ty[c], r.ty[rOf(c)])
        up(ty, to, v) == IF to = "float" THEN ToRat(ty, v) ELSE v      \* implicit conversion to the common type
        lr  == [p \in DOMAIN l.rows |-> [c \in V |-> up(l.ty[c], jt(c), l.rows[p][c])]]
        rr  == [p \in DOMAIN r.rows |-> [c \in V |-> up(r.ty[rOf(c)], jt(c), r.rows[p][rOf(c)])]]
        all == lr \o rr
        ded == SelectSeq(Iota(Len(all)), LAMBDA p : \A q \in 1..(p - 1) : ~RowEqOn(l.vis, tys, all[q], all[p]))
        rows == IF distinct THEN [p \in DOMAIN ded |-> all[ded[p]]] ELSE all
    IN Ok([ vis  |-> l.vis,
            nm   |-> [c \in V |-> l.nm[c]],
            ty   |-> [c \in V |-> JoinTy(l.ty[c], r.ty[rOf(c)])],
            fk   |-> [c \in V |-> "e"],
            rows |-> rows,
            part |-> <<>>,
            pcls |-> AllOnes(Len(rows)), scls |-> AllOnes(Len(rows)),
            pdef |-> l.pdef /\ r.pdef, sdef |-> l.sdef /\ r.sdef,
            name |-> l.name, root |-> l.root \cup r.root, loose |-> FALSE, cst |-> {} ])

---------------------------------------------------------------------------
(* transfer_col_references(table, ref_source): the data of `table` under the *)
(* column identities of the equally named visible columns of `ref_source`   *)
Transfer(t, s) ==
    IF ~(VisNames(t) \subseteq VisNames(s)) THEN Fail("ValueError")
    ELSE
    LET V == VisSet(t)
        new(c) == ByName(s)[t.nm[c]]
        newset == {new(c) : c \in V}
        inv(d) == CHOOSE c \in V : new(c) = d
    IN Ok([t EXCEPT
            !.vis  = [i \in DOMAIN t.vis |-> new(t.vis[i])],
            !.nm   = [d \in newset |-> t.nm[inv(d)]],
            !.ty   = [d \in newset |-> t.ty[inv(d)]],
            !.fk   = [d \in newset |-> t.fk[inv(d)]],
            !.rows = [r \in DOMAIN t.rows |-> [d \in newset |-> t.rows[r][inv(d)]]],
            !.part = [i \in DOMAIN t.part |-> new(t.part[i])],
            !.cst  = {} ])

---------------------------------------------------------------------------
(* observation of a table: what export / columns() / grouping show *)
Obs(t) ==
    [ names |-> NamesOf(t),
      ids   |-> t.vis,
      tys   |-> [i \in DOMAIN t.vis |-> t.ty[t.vis[i]]],
      rows  |-> [r \in DOMAIN t.rows |-> [i \in DOMAIN t.vis |-> t.rows[r][t.vis[i]]]],
      pcls  |-> t.pcls, scls |-> t.scls, pdef |-> t.pdef, sdef |-> t.sdef,
      part  |-> [i \in DOMAIN t.part |-> t.nm[t.part[i]]],
      pids  |-> t.part,
      loose |-> t.loose ]

=============================================================================
