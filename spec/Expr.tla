-------------------------------- MODULE Expr --------------------------------
(***************************************************************************)
(* Column expressions: abstract syntax, elaboration (name resolution,      *)
(* static type, function kind, well-formedness -> documented error class)  *)
(* and evaluation over the rows of a table.                                *)
(*                                                                         *)
(* Surface syntax (what alphabets build and what is emitted for replay):   *)
(*   [k |-> "col",   id |-> c]                 t.x  (table-bound reference) *)
(*   [k |-> "cname", n |-> "x"]                C.x                          *)
(*   [k |-> "lit",   ty |-> T, v |-> value]    python literal               *)
(*   [k |-> "fn",    op |-> o, a |-> <<e..>>]  element-wise operator        *)
(*   [k |-> "agg",   op |-> o, a |-> <<e>>,    aggregate; pk = "ctx": no    *)
(*        pk |-> "ctx"|"ids", part |-> <<refs>>, f |-> <<>> | <<pred>>]     *)
(*                                             partition_by= given          *)
(*   [k |-> "win",   op |-> o, a |-> <<e..>>, pk, part,                    *)
(*        ord |-> <<[e, desc, nl]>>, n |-> shift distance, fill |-> <<>>|<<lit>>] *)
(*   [k |-> "case",  cs |-> <<[c |-> cond, v |-> val]>>, d |-> <<>>|<<e>>] *)
(*   [k |-> "cast",  e |-> x, to |-> T]                                    *)
(*   [k |-> "mark",  op |-> "descending"|..., a |-> <<e>>]  ordering marker *)
(*                                                                         *)
(* Elaborated syntax = same records plus  ty (static type), fk (function   *)
(* kind "e" | "a" | "w"), with "cname" replaced by "col" and "ctx"         *)
(* partitions replaced by the table's grouping columns; or                 *)
(*   [k |-> "err", cls |-> "<exception class>"]                            *)
(***************************************************************************)
EXTENDS Strings, FiniteSetsExt, SequencesExt

Types == {"int", "float", "bool", "str", "null", "date", "datetime", "duration"}

ErrE(cls) == [k |-> "err", cls |-> cls]
IsErr(e)  == e.k = "err"

RECURSIVE Flat(_)
Flat(ss) == IF ss = <<>> THEN <<>> ELSE ss[1] \o Flat(Tail(ss))

RECURSIVE IsConstExpr(_)
IsConstExpr(e) ==        \* a surface expression over literals only (its dtype is `const` in the code)
    CASE e.k = "lit" -> TRUE
      [] e.k = "fn" -> \A i \in DOMAIN e.a : IsConstExpr(e.a[i])
      [] e.k = "cast" -> IsConstExpr(e.e)
      [] e.k = "case" -> (\A i \in DOMAIN e.cs : IsConstExpr(e.cs[i].c) /\ IsConstExpr(e.cs[i].v)) /\ (\A i \in DOMAIN e.d : IsConstExpr(e.d[i]))
      [] OTHER -> FALSE

(* first error among a sequence of elaborated expressions, or <<>> *)
FirstErr(es) == LET bad == SelectSeq(es, LAMBDA x : x.k = "err") IN
                IF bad = <<>> THEN <<>> ELSE <<bad[1]>>

---------------------------------------------------------------------------
(* type algebra (the part of tree/types.py the pipelines need; the full    *)
(* conversion graph is in Types.tla / Resolve.tla)                         *)
IsNum(t) == t \in {"int", "float", "null"}
JoinTy(a, b) ==           \* least common type or "ERR"
    IF a = b THEN a
    ELSE IF a = "null" THEN b ELSE IF b = "null" THEN a
    ELSE IF {a, b} = {"int", "float"} THEN "float"
    ELSE "ERR"
RECURSIVE JoinAll(_)
JoinAll(ts) == IF Len(ts) = 1 THEN ts[1] ELSE JoinTy(ts[1], JoinAll(Tail(ts)))

Comparable(t) == t \in {"int", "float", "bool", "str", "null"}
Orderable(t)  == t \in {"int", "float", "bool", "null"}   \* strings: equality only in this model

TransOps == {"exp", "log", "log10", "sqrt", "cbrt", "sin", "cos", "tan", "asin", "acos", "atan"}
StrOps == {"str_starts_with", "str_ends_with", "str_contains", "str_replace_all", "str_len"}
ElemOps == {"add", "sub", "mul", "truediv", "floordiv", "mod", "neg", "pos", "abs",
            "eq", "ne", "lt", "le", "gt", "ge", "and", "or", "xor", "not",
            "is_null", "is_not_null", "fill_null", "is_in", "coalesce",
            "hmax", "hmin", "hsum", "hany", "hall", "clip", "floor", "ceil",
            "is_nan", "is_not_nan", "is_inf", "is_not_inf"}
AggOps  == {"sum", "mean", "min", "max", "any", "all", "count", "len"}
WinOps  == {"row_number", "rank", "dense_rank", "shift", "cum_sum"}
Markers == {"descending", "ascending", "nulls_first", "nulls_last"}

(* result type of an element-wise operator for argument types ts, "ERR" = DataTypeError *)
FnTy(op, ts) ==
    LET n  == Len(ts)
        j  == IF n = 0 THEN "ERR" ELSE JoinAll(ts)
    IN
    CASE op \in {"add"} ->
            IF n # 2 THEN "ERR"
            \* a datetime moved by a duration (either order) is a datetime, two durations add up to a duration
            ELSE IF {ts[1], ts[2]} = {"datetime", "duration"} THEN "datetime" ELSE IF ts[1] = "duration" /\ ts[2] = "duration" THEN "duration"
            ELSE IF j \in {"int", "float", "str"} THEN j
            ELSE IF j = "bool" THEN "int" ELSE IF j = "null" THEN "AMBIG" ELSE "ERR"
      [] op \in {"sub", "mul"} ->
            IF n # 2 THEN "ERR" ELSE IF j \in {"int", "float"} THEN j ELSE IF j = "null" THEN "AMBIG"
            \* the difference of two dates / two datetimes is a duration (no SQL back end here has such a type: NotSupportedError there)
            ELSE IF op = "sub" /\ ts[1] = ts[2] /\ ts[1] \in {"date", "datetime"} THEN "duration" ELSE "ERR"
      [] op = "truediv" -> IF n = 2 /\ j \in {"int", "float"} THEN "float" ELSE IF j = "null" THEN "AMBIG" ELSE "ERR"
      [] op \in {"floordiv", "mod"} -> IF n = 2 /\ j = "int" THEN "int" ELSE IF j = "null" THEN "int" ELSE "ERR"
      [] op \in {"neg", "pos", "abs"} -> IF n = 1 /\ j \in {"int", "float"} THEN j ELSE IF j = "null" THEN "AMBIG" ELSE "ERR"
      [] op \in {"floor", "ceil"} -> IF n = 1 /\ j \in {"int", "float", "null"} THEN "float" ELSE "ERR"
      [] op \in {"eq", "ne"} -> IF n = 2 /\ j # "ERR" THEN "bool" ELSE "ERR"
      [] op \in {"lt", "le", "gt", "ge"} -> IF n = 2 /\ j # "ERR" /\ Comparable(j) THEN (IF j = "null" THEN "AMBIG" ELSE "bool") ELSE "ERR"
      [] op \in {"and", "or", "xor"} -> IF n = 2 /\ j \in {"bool", "null"} THEN "bool" ELSE "ERR"
      [] op = "not" -> IF n = 1 /\ j \in {"bool", "null"} THEN "bool" ELSE "ERR"
      [] op \in {"is_null", "is_not_null"} -> IF n = 1 THEN "bool" ELSE "ERR"
      [] op \in {"is_nan", "is_not_nan", "is_inf", "is_not_inf"} -> IF n = 1 /\ j \in {"float", "int", "null"} THEN "bool" ELSE "ERR"
      [] op = "fill_null" -> IF n = 2 /\ j # "ERR" THEN j ELSE "ERR"
      [] op = "coalesce" -> IF n >= 1 /\ j # "ERR" THEN j ELSE "ERR"          \* the variadic functions take one or more arguments
      [] op = "is_in" -> IF n >= 2 /\ j # "ERR" THEN "bool" ELSE "ERR"
      [] op \in {"hmax", "hmin"} -> IF n >= 1 /\ j # "ERR" /\ Comparable(j) THEN (IF j = "null" THEN "AMBIG" ELSE j) ELSE "ERR"
      [] op = "hsum" -> IF n >= 1 /\ j \in {"int", "float", "str"} THEN j ELSE IF j = "null" THEN "AMBIG" ELSE "ERR"
      [] op \in {"hany", "hall"} -> IF n >= 1 /\ j \in {"bool", "null"} THEN "bool" ELSE "ERR"
      [] op = "clip" -> IF n = 3 /\ j # "ERR" /\ Comparable(j) THEN (IF j = "null" THEN "AMBIG" ELSE j) ELSE "ERR"
      [] op \in {"str_starts_with", "str_ends_with", "str_contains"} -> IF n = 2 /\ j \in {"str", "null"} THEN "bool" ELSE "ERR"
      [] op = "str_replace_all" -> IF n = 3 /\ j \in {"str", "null"} THEN "str" ELSE "ERR"
      [] op = "str_len" -> IF n = 1 /\ j \in {"str", "null"} THEN "int" ELSE "ERR"
      [] op \in {"str_upper", "str_lower", "str_strip"} -> IF n = 1 /\ j \in {"str", "null"} THEN "str" ELSE "ERR"
      [] op = "str_slice" -> IF n = 3 /\ ts[1] \in {"str", "null"} /\ ts[2] \in {"int", "null"} /\ ts[3] \in {"int", "null"} THEN "str" ELSE "ERR"
      [] op = "pow" -> IF n = 2 /\ j \in {"int", "float"} THEN "float" ELSE IF j = "null" THEN "AMBIG" ELSE "ERR"
      [] op = "round" -> IF n = 2 /\ ts[1] \in {"int", "float"} /\ ts[2] = "int" THEN ts[1] ELSE "ERR"
      [] op \in TransOps -> IF n = 1 /\ j \in {"int", "float", "null"} THEN "float" ELSE "ERR"
      [] op \in {"dt_year", "dt_month", "dt_day"} -> IF n = 1 /\ j \in {"date", "datetime"} THEN "int" ELSE "ERR"
      [] op \in {"dt_hour", "dt_minute", "dt_second", "dt_millisecond"} -> IF n = 1 /\ j = "datetime" THEN "int" ELSE "ERR"
      [] OTHER -> "ERR"

AggTy(op, t) ==
    CASE op = "sum"  -> IF t \in {"int", "float"} THEN t ELSE IF t = "bool" THEN "int" ELSE IF t = "null" THEN "AMBIG" ELSE "ERR"
      [] op = "mean" -> IF t \in {"int", "float"} THEN "float" ELSE IF t = "null" THEN "AMBIG" ELSE "ERR"
      [] op \in {"min", "max"} -> IF t = "null" THEN "AMBIG" ELSE IF Comparable(t) THEN t ELSE "ERR"
      [] op \in {"any", "all"} -> IF t \in {"bool", "null"} THEN "bool" ELSE "ERR"
      [] op = "count" -> "int"
      [] op = "len" -> "int"
      [] OTHER -> "ERR"

(* function-kind algebra of ColFn.ftype:                                   *)
(*    e(e)=e  e(a)=a  e(w)=w ;  a(e)=a  a(a)=Err a(w)=Err ; w(e)=w w(a)=w? *)
(* (in the code a window or aggregate operator rejects ANY aggregate or    *)
(* window operator below it: "nested" -> FunctionTypeError)                *)
JoinFk(ks) == IF "w" \in ks THEN "w" ELSE IF "a" \in ks THEN "a" ELSE "e"
FkSet(es) == {es[i].fk : i \in DOMAIN es}

---------------------------------------------------------------------------
(* the cast table of ColExpr.cast restricted to the model's types          *)
CastOk(from, to) ==
    \/ from = to
    \/ from = "null"
    \/ <<from, to>> \in {<<"int", "float">>, <<"float", "int">>, <<"bool", "int">>, <<"bool", "float">>,
                         <<"int", "str">>, <<"float", "str">>, <<"str", "int">>, <<"str", "float">>,
                         <<"date", "datetime">>, <<"datetime", "date">>, <<"date", "str">>, <<"datetime", "str">>}

(* Elaboration context: Cx = [ty : ColId -> Type, fk : ColId -> kind,      *)
(*   scope : set of ColId usable, byname : Name -> ColId for visible cols   *)
(*   (a function with DOMAIN = visible names), part : Seq(ColId),           *)
(*   aggwin : BOOLEAN  (mutate/filter/arrange: aggregates act as windows)]  *)

RECURSIVE El(_, _)
ElSeq(es, cx) == [i \in DOMAIN es |-> El(es[i], cx)]

ElPart(e, cx) ==      \* the partition of an agg / window node as a sequence of elaborated column refs
    IF e.pk = "ctx" THEN [i \in DOMAIN cx.part |-> [k |-> "col", id |-> cx.part[i], ty |-> cx.ty[cx.part[i]], fk |-> "e"]]
    ELSE ElSeq(e.part, cx)

RECURSIVE HasAggWinOp(_)
HasAggWinOp(e) ==       \* the elaborated expression contains an aggregate / window OPERATOR
    CASE e.k \in {"agg", "win"} -> TRUE
      [] e.k = "fn" -> \E i \in DOMAIN e.a : HasAggWinOp(e.a[i])
      [] e.k = "case" -> (\E i \in DOMAIN e.cs : HasAggWinOp(e.cs[i].c) \/ HasAggWinOp(e.cs[i].v))
                         \/ (\E i \in DOMAIN e.d : HasAggWinOp(e.d[i]))
      [] e.k = "cast" -> HasAggWinOp(e.e)
      [] OTHER -> FALSE

(* "at most one window / aggregation function on any path from the root to a leaf": only operators count; *)
(* a COLUMN that was computed by an aggregate in an earlier verb is an ordinary column                     *)
HasNestedAggWin(es) == \E i \in DOMAIN es : HasAggWinOp(es[i])

El(e, cx) ==
    CASE e.k = "col" ->
            IF e.id \in cx.scope THEN [k |-> "col", id |-> e.id, ty |-> cx.ty[e.id], fk |-> cx.fk[e.id]]
            ELSE ErrE("ColumnNotFoundError")
      [] e.k = "cname" ->
            IF e.n \in DOMAIN cx.byname
            THEN LET c == cx.byname[e.n] IN [k |-> "col", id |-> c, ty |-> cx.ty[c], fk |-> cx.fk[c]]
            ELSE ErrE("ColumnNotFoundError")
      [] e.k = "lit" -> [k |-> "lit", ty |-> e.ty, v |-> e.v, fk |-> "e"]
      [] e.k = "mark" -> ErrE("TypeError")       \* ordering marker outside arrange (wrap_literals)
      [] e.k = "map" ->      \* x.map({keys: value, ...}, default=d): first key tuple containing x wins; default is x itself if not given
            El([k |-> "case",
                cs |-> [q \in DOMAIN e.ks |-> [c |-> [k |-> "fn", op |-> "is_in", a |-> <<e.e>> \o e.ks[q]], v |-> e.vs[q]]],
                d |-> IF e.d = <<>> THEN <<e.e>> ELSE e.d], cx)
      [] e.k = "fn" ->
            LET as == ElSeq(e.a, cx)
                fe == FirstErr(as)
            IN IF fe # <<>> THEN fe[1]
               ELSE LET t == FnTy(e.op, [i \in DOMAIN as |-> as[i].ty]) IN
                    IF t = "ERR" THEN ErrE("DataTypeError")
                    ELSE IF t = "AMBIG" THEN ErrE("AMBIG")
                    ELSE [k |-> "fn", op |-> e.op, a |-> as, ty |-> t, fk |-> JoinFk(FkSet(as))]
      [] e.k = "case" ->
            LET cs == [i \in DOMAIN e.cs |-> [c |-> El(e.cs[i].c, cx), v |-> El(e.cs[i].v, cx)]]
                dd == ElSeq(e.d, cx)
                all == [i \in 1..(2 * Len(cs)) |-> IF i % 2 = 1 THEN cs[(i + 1) \div 2].c ELSE cs[i \div 2].v] \o dd
                fe == FirstErr(all)
            IN IF fe # <<>> THEN fe[1]
               ELSE IF \E i \in DOMAIN cs : cs[i].c.ty \notin {"bool", "null"} THEN ErrE("DataTypeError")
               ELSE LET t == JoinAll([i \in DOMAIN cs |-> cs[i].v.ty] \o [i \in DOMAIN dd |-> dd[i].ty]) IN
                    \* "incompatible function types found in case statement": the non-constant VALUES are of one kind, or one is a window function
                    LET vfk == {cs[i].v.fk : i \in {j \in DOMAIN cs : ~IsConstExpr(e.cs[j].v)}} \cup {dd[i].fk : i \in {j \in DOMAIN dd : ~IsConstExpr(e.d[j])}} IN
                    IF t = "ERR" THEN ErrE("DataTypeError")
                    ELSE IF "w" \notin vfk /\ Cardinality(vfk) > 1 THEN ErrE("FunctionTypeError")
                    ELSE [k |-> "case", cs |-> cs, d |-> dd, ty |-> t, fk |-> JoinFk(FkSet(all))]
      [] e.k = "cast" ->
            LET x == El(e.e, cx) IN
            IF IsErr(x) THEN x
            ELSE IF ~CastOk(x.ty, e.to) THEN ErrE("DataTypeError")
            ELSE [k |-> "cast", e |-> x, to |-> e.to, ty |-> e.to, fk |-> x.fk]
      [] e.k = "agg" ->
            LET as == ElSeq(e.a, cx)
                ff == ElSeq(e.f, cx)
                pp == ElPart(e, cx)
                fe == FirstErr(as \o ff \o pp)
            IN IF fe # <<>> THEN fe[1]
               ELSE LET t == IF e.op = "len" THEN "int" ELSE AggTy(e.op, as[1].ty) IN
                    IF t = "ERR" \/ (ff # <<>> /\ ff[1].ty \notin {"bool", "null"}) THEN ErrE("DataTypeError")
                    ELSE IF t = "AMBIG" THEN ErrE("AMBIG")
                    ELSE IF HasNestedAggWin(as \o ff \o pp) THEN ErrE("FunctionTypeError")
                    ELSE [k |-> "agg", op |-> e.op, a |-> as, f |-> ff, part |-> pp, ty |-> t,
                          \* inside mutate/filter/arrange an aggregate is a window function over the grouping
                          fk |-> IF cx.aggwin \/ e.pk = "ids" THEN "w" ELSE "a",
                          pk |-> e.pk]
      [] e.k = "win" ->
            LET as == ElSeq(e.a, cx)
                pp == ElPart(e, cx)
                os == [i \in DOMAIN e.ord |-> [e |-> El(e.ord[i].e, cx), desc |-> e.ord[i].desc, nl |-> e.ord[i].nl]]
                oe == [i \in DOMAIN os |-> os[i].e]
                fl == ElSeq(e.fill, cx)
                fe == FirstErr(as \o pp \o oe \o fl)
            IN IF fe # <<>> THEN fe[1]
               ELSE LET t == CASE e.op \in {"row_number", "rank", "dense_rank"} -> "int"
                               [] e.op = "shift" -> IF fl = <<>> THEN as[1].ty ELSE JoinTy(as[1].ty, fl[1].ty)
                               [] e.op = "cum_sum" -> IF as[1].ty \in {"int", "float"} THEN as[1].ty ELSE "ERR"
                               [] OTHER -> "ERR"
                    IN IF t = "ERR" THEN ErrE("DataTypeError")
                       ELSE IF HasNestedAggWin(as \o oe \o pp) THEN ErrE("FunctionTypeError")
                       ELSE [k |-> "win", op |-> e.op, a |-> as, part |-> pp, ord |-> os, n |-> e.n, fill |-> fl,
                             ty |-> t, fk |-> "w", pk |-> e.pk]
      [] OTHER -> ErrE("TypeError")

---------------------------------------------------------------------------
(* Evaluation.  R : Seq(row), row : ColId -> Value;  i : index of the row  *)
(* the expression is evaluated for; e : ELABORATED expression.             *)

ToRat(ty, v) == IF IsN(v) \/ IsU(v) THEN v ELSE IF ty = "int" THEN RatOfInt(v) ELSE v
Prom(x, v, t) == IF t = "float" THEN ToRat(x.ty, v) ELSE v    \* promote an int argument of a float operation

SeqAnyU(vs) == \E i \in DOMAIN vs : IsU(vs[i])
SeqAnyN(vs) == \E i \in DOMAIN vs : IsN(vs[i])

(* extremum of the non-null members of a value sequence; NULL if none *)
ExtV(ty, vs, wantMax) ==
    LET nn == {i \in DOMAIN vs : ~IsN(vs[i])} IN
    IF SeqAnyU(vs) THEN UNDEF
    ELSE IF nn = {} THEN NULL
    ELSE LET b == CHOOSE i \in nn : \A j \in nn :
                    IF wantMax THEN ~LtRaw(ty, vs[i], vs[j]) ELSE ~LtRaw(ty, vs[j], vs[i])
         IN vs[b]

RECURSIVE FoldAdd(_, _)      \* sum of a sequence of non-null numbers of type ty
FoldAdd(ty, vs) == IF vs = <<>> THEN (IF ty = "float" THEN RatOfInt(0) ELSE 0)
                   ELSE IF ty = "float" THEN RatAddV(vs[1], FoldAdd(ty, Tail(vs)))
                   ELSE AddV(vs[1], FoldAdd(ty, Tail(vs)))

RECURSIVE Fold3(_, _, _)     \* Kleene fold: isAnd = TRUE: conjunction, else disjunction
Fold3(isAnd, vs, acc) == IF vs = <<>> THEN acc
                         ELSE Fold3(isAnd, Tail(vs), IF isAnd THEN And3(acc, vs[1]) ELSE Or3(acc, vs[1]))

ApplyFn(e, vs) ==          \* e: elaborated fn node, vs: argument values (already promoted)
    LET op == e.op
        t  == e.ty
        at == IF Len(e.a) = 0 THEN "null" ELSE JoinAll([i \in DOMAIN e.a |-> e.a[i].ty])  \* joined argument type
        pv == [i \in DOMAIN vs |-> Prom(e.a[i], vs[i], at)]
    IN
    CASE op = "add" -> IF \E i \in DOMAIN e.a : e.a[i].ty = "duration" THEN (IF SeqAnyU(vs) THEN UNDEF ELSE IF \E i \in DOMAIN vs : IsN(vs[i]) THEN NULL ELSE UNDEF)   \* typed, not evaluated by the model
                       ELSE IF at = "float" THEN RatAddV(pv[1], pv[2])
                       ELSE IF at = "bool" THEN Strict2(vs[1], vs[2], (IF vs[1] = TRUE THEN 1 ELSE 0) + (IF vs[2] = TRUE THEN 1 ELSE 0))
                       ELSE IF at = "str" THEN Strict2(vs[1], vs[2], vs[1] \o vs[2])
                       ELSE AddV(vs[1], vs[2])
      [] op = "sub" -> IF at = "float" THEN RatSubV(pv[1], pv[2])
                       ELSE IF at = "date" THEN Strict2(vs[1], vs[2], DateDiff(vs[1], vs[2]))
                       ELSE IF at = "datetime" THEN Strict2(vs[1], vs[2], DatetimeDiff(vs[1], vs[2]))
                       ELSE SubV(vs[1], vs[2])
      [] op = "mul" -> IF at = "float" THEN RatMulV(pv[1], pv[2]) ELSE MulV(vs[1], vs[2])
      [] op = "truediv" -> IF at = "float" THEN RatDivV(pv[1], pv[2]) ELSE TrueDivV(vs[1], vs[2])
      [] op = "floordiv" -> FloorDivV(vs[1], vs[2])
      [] op = "mod" -> ModV(vs[1], vs[2])
      [] op = "neg" -> IF at = "float" THEN Strict1(vs[1], [n |-> -vs[1].n, d |-> vs[1].d]) ELSE NegV(vs[1])
      [] op = "pos" -> vs[1]
      [] op = "abs" -> IF at = "float" THEN Strict1(vs[1], [n |-> AbsI(vs[1].n), d |-> vs[1].d]) ELSE AbsV(vs[1])
      [] op = "floor" -> Strict1(pv[1], RatOfInt(RatFloor(ToRat(at, vs[1]))))
      [] op = "ceil"  -> Strict1(pv[1], RatOfInt(RatCeil(ToRat(at, vs[1]))))
      [] op = "eq" -> EqV(at, pv[1], pv[2])
      [] op = "ne" -> NeV(at, pv[1], pv[2])
      [] op = "lt" -> LtV(at, pv[1], pv[2])
      [] op = "le" -> LeV(at, pv[1], pv[2])
      [] op = "gt" -> GtV(at, pv[1], pv[2])
      [] op = "ge" -> GeV(at, pv[1], pv[2])
      [] op = "and" -> And3(vs[1], vs[2])
      [] op = "or"  -> Or3(vs[1], vs[2])
      [] op = "xor" -> Xor3(vs[1], vs[2])
      [] op = "not" -> Not3(vs[1])
      [] op = "is_null" -> IF IsU(vs[1]) THEN UNDEF ELSE IsN(vs[1])
      [] op = "is_not_null" -> IF IsU(vs[1]) THEN UNDEF ELSE ~IsN(vs[1])
      \* the values of the model are finite numbers (nan / inf are outside the fragment): null for null, otherwise a fixed answer
      [] op \in {"is_nan", "is_inf"} -> Strict1(vs[1], FALSE)
      [] op \in {"is_not_nan", "is_not_inf"} -> Strict1(vs[1], TRUE)
      [] op = "fill_null" -> IF SeqAnyU(pv) THEN UNDEF ELSE IF IsN(pv[1]) THEN pv[2] ELSE pv[1]
      [] op = "coalesce" -> IF SeqAnyU(pv) THEN UNDEF
                            ELSE LET nn == {i \in DOMAIN pv : ~IsN(pv[i])} IN
                                 IF nn = {} THEN NULL ELSE pv[Min(nn)]
      [] op = "is_in" ->     \* (x == a1) | (x == a2) | ...   (comparison.py docstring)
            Fold3(FALSE, [i \in 1..(Len(pv) - 1) |-> EqV(at, pv[1], pv[i + 1])], FALSE)
      [] op = "hmax" -> ExtV(at, pv, TRUE)
      [] op = "hmin" -> ExtV(at, pv, FALSE)
      [] op = "hsum" -> IF SeqAnyU(pv) THEN UNDEF ELSE IF SeqAnyN(pv) THEN NULL ELSE FoldAdd(at, pv)
      [] op = "str_starts_with" -> Strict2(vs[1], vs[2], StartsWith(vs[1], vs[2]))
      [] op = "str_ends_with"   -> Strict2(vs[1], vs[2], EndsWith(vs[1], vs[2]))
      [] op = "str_contains"    -> Strict2(vs[1], vs[2], ContainsStr(vs[1], vs[2]))
      [] op = "str_replace_all" -> IF SeqAnyU(vs) THEN UNDEF ELSE IF SeqAnyN(vs) THEN NULL
                                   ELSE IF vs[2] = <<>> THEN UNDEF ELSE ReplaceAllStr(vs[1], vs[2], vs[3])
      [] op = "str_len" -> Strict1(vs[1], Len(vs[1]))
      [] op = "str_upper" -> Strict1(vs[1], UpperStr(vs[1]))
      [] op = "str_lower" -> Strict1(vs[1], LowerStr(vs[1]))
      [] op = "str_strip" -> Strict1(vs[1], StripStr(vs[1]))
      [] op = "str_slice" -> IF SeqAnyU(vs) THEN UNDEF ELSE IF SeqAnyN(vs) THEN NULL ELSE SliceStr(vs[1], vs[2], vs[3])
      [] op = "pow" ->       \* non-negative integer exponents only (negative: backend dependent / domain error)
            IF SeqAnyU(pv) THEN UNDEF ELSE IF SeqAnyN(pv) THEN NULL
            ELSE LET ex == ToRat(e.a[2].ty, vs[2]) bs == ToRat(e.a[1].ty, vs[1]) IN
                 IF ex.d # 1 \/ ex.n < 0 \/ ex.n > 4 THEN UNDEF ELSE RatPow(bs, ex.n)
      [] op = "round" ->     \* rounding ties have no backend-independent result
            IF SeqAnyU(vs) THEN UNDEF ELSE IF IsN(vs[1]) THEN NULL ELSE IF IsN(vs[2]) THEN UNDEF
            ELSE IF e.a[1].ty = "int"
                 THEN (IF vs[2] >= 0 THEN vs[1]
                       ELSE IF vs[2] < -3 THEN UNDEF
                       ELSE LET p == CASE vs[2] = -1 -> 10 [] vs[2] = -2 -> 100 [] OTHER -> 1000      \* nearest multiple of 10^k, ties undefined
                                r == vs[1] % p
                            IN IF 2 * r = p THEN UNDEF ELSE IF 2 * r < p THEN vs[1] - r ELSE vs[1] - r + p)
            ELSE IF vs[2] # 0 THEN UNDEF
            ELSE LET r == vs[1] fl == RatFloor(r) twice == 2 * (r.n - fl * r.d) IN
                 IF twice = r.d THEN UNDEF ELSE RatOfInt(IF twice < r.d THEN fl ELSE fl + 1)
      [] op \in TransOps ->  \* value not computed here: null-ness, type and domain only; back ends compared with each other
            IF IsU(vs[1]) THEN UNDEF ELSE IF IsN(vs[1]) THEN NULL
            ELSE LET r == ToRat(e.a[1].ty, vs[1]) IN
                 CASE op \in {"log", "log10"} -> IF r.n <= 0 THEN UNDEF ELSE ANY
                   [] op = "sqrt" -> IF r.n < 0 THEN UNDEF ELSE ANY
                   [] op \in {"asin", "acos"} -> IF AbsI(r.n) > r.d THEN UNDEF ELSE ANY
                   [] OTHER -> ANY
      [] op = "dt_year" -> Strict1(vs[1], vs[1].y)
      [] op = "dt_month" -> Strict1(vs[1], vs[1].m)
      [] op = "dt_day" -> Strict1(vs[1], vs[1].d)
      [] op = "dt_hour" -> Strict1(vs[1], vs[1].H)
      [] op = "dt_minute" -> Strict1(vs[1], vs[1].M)
      [] op = "dt_second" -> Strict1(vs[1], vs[1].S)
      \* the millisecond component; below a millisecond SQLite rounds (documented as non-standard): undetermined there
      [] op = "dt_millisecond" -> IF IsU(vs[1]) \/ IsN(vs[1]) THEN Strict1(vs[1], 0) ELSE IF vs[1].us % 1000 = 0 THEN vs[1].us \div 1000 ELSE UNDEF
      [] op = "hall" -> Fold3(TRUE, vs, TRUE)
      [] op = "hany" -> Fold3(FALSE, vs, FALSE)
      [] op = "clip" ->      \* null stays null; otherwise pdt.max(pdt.min(x, upper), lower): a null bound is no bound, lower wins over upper
            IF SeqAnyU(pv) THEN UNDEF ELSE IF IsN(pv[1]) THEN NULL
            ELSE ExtV(at, <<ExtV(at, <<pv[1], pv[3]>>, FALSE), pv[2]>>, TRUE)
      [] OTHER -> UNDEF

(* value of an aggregate `op` over the rows J, V[j] the argument value of row j *)
AggVal(op, aty, V, J) ==
    LET NN == {j \in J : ~IsN(V[j])}
        vs == [x \in 1..Cardinality(NN) |-> V[SetToSortSeq(NN, <)[x]]]
    IN
    IF \E j \in J : IsU(V[j]) THEN UNDEF
    ELSE CASE op = "count" -> Cardinality(NN)
           [] op = "len"   -> Cardinality(J)
           [] NN = {}      -> NULL
           [] op = "sum"   -> IF aty = "bool" THEN Cardinality({j \in NN : V[j] = TRUE}) ELSE FoldAdd(aty, vs)
           [] op = "mean"  -> IF aty = "float"
                              THEN RatDivV(FoldAdd("float", vs), RatOfInt(Cardinality(NN)))
                              ELSE LET s == FoldAdd("int", vs) IN IF IsU(s) THEN UNDEF ELSE Rat(s, Cardinality(NN))
           [] op = "min"   -> ExtV(aty, vs, FALSE)
           [] op = "max"   -> ExtV(aty, vs, TRUE)
           [] op = "any"   -> \E j \in NN : V[j] = TRUE
           [] op = "all"   -> \A j \in NN : V[j] = TRUE
           [] OTHER -> UNDEF

(* documented cast semantics on the model's value classes (ColExpr.cast)   *)
CastVal(from, to, v) ==
    IF IsU(v) THEN UNDEF ELSE IF IsN(v) THEN NULL
    ELSE IF from = to THEN v
    ELSE CASE from = "int" /\ to = "float" -> RatOfInt(v)
           [] from = "float" /\ to = "int" -> RatTrunc(v)
           [] from = "bool" /\ to = "int" -> IF v THEN 1 ELSE 0
           [] from = "bool" /\ to = "float" -> RatOfInt(IF v THEN 1 ELSE 0)
           [] from = "int" /\ to = "str" -> IntToStr(v)
           [] from = "float" /\ to = "str" -> RatToStr(v)
           [] from = "str" /\ to = "int" -> ParseInt(v)
           [] from = "str" /\ to = "float" -> ParseRat(v)
           [] from = "datetime" /\ to = "date" -> DatetimeToDate(v)
           [] from = "date" /\ to = "datetime" -> DateToDatetime(v)
           [] from = "date" /\ to = "str" -> DateToStr(v)
           [] from = "datetime" /\ to = "str" -> DatetimeToStr(v)
           [] OTHER -> UNDEF

RECURSIVE Ev(_, _, _)

(* rows of R in the same partition as row i w.r.t. the elaborated refs pp; *)
(* i = 0 stands for "the whole (ungrouped) table" (summarize of an empty   *)
(* input must still yield one row)                                         *)
PartRows(pp, R, i) ==
    IF pp = <<>> THEN 1..Len(R)
    ELSE {j \in 1..Len(R) : \A q \in DOMAIN pp : SameKey(pp[q].ty, Ev(pp[q], R, i), Ev(pp[q], R, j))}

KeyVals(os, R, j) == [q \in DOMAIN os |-> Ev(os[q].e, R, j)]
RECURSIVE BeforeKV(_, _, _, _)
BeforeKV(os, a, b, q) ==       \* lexicographic: does key tuple a sort strictly before b, from key q on
    IF q > Len(os) THEN FALSE
    ELSE IF Before1(os[q].e.ty, a[q], b[q], os[q].desc, os[q].nl) THEN TRUE
    ELSE IF Before1(os[q].e.ty, b[q], a[q], os[q].desc, os[q].nl) THEN FALSE
    ELSE BeforeKV(os, a, b, q + 1)
TieKV(os, a, b) == ~BeforeKV(os, a, b, 1) /\ ~BeforeKV(os, b, a, 1)

Ev(e, R, i) ==
    CASE e.k = "col"  -> R[i][e.id]
      [] e.k = "lit"  -> e.v
      [] e.k = "fn"   -> ApplyFn(e, [j \in DOMAIN e.a |-> Ev(e.a[j], R, i)])
      [] e.k = "case" ->
            LET cv == [j \in DOMAIN e.cs |-> Ev(e.cs[j].c, R, i)]
                hit == {j \in DOMAIN e.cs : cv[j] = TRUE}
                (* a condition that is UNDEF before the first hit makes the result UNDEF *)
                lim == IF hit = {} THEN Len(e.cs) ELSE Min(hit)
            IN IF \E j \in 1..lim : IsU(cv[j]) THEN UNDEF
               ELSE IF hit # {} THEN Prom(e.cs[Min(hit)].v, Ev(e.cs[Min(hit)].v, R, i), e.ty)
               ELSE IF e.d # <<>> THEN Prom(e.d[1], Ev(e.d[1], R, i), e.ty)
               ELSE NULL
      [] e.k = "cast" -> CastVal(e.e.ty, e.to, Ev(e.e, R, i))
      [] e.k = "agg" ->
            LET I == PartRows(e.part, R, i)
                \* filter= takes one condition or a list: a row counts iff ALL conditions are true for it
                J == {j \in I : \A q \in DOMAIN e.f : Ev(e.f[q], R, j) = TRUE}
                fu == \E q \in DOMAIN e.f : \E j \in I : IsU(Ev(e.f[q], R, j))
                V == IF e.op = "len" THEN [j \in J |-> 0] ELSE [j \in J |-> Ev(e.a[1], R, j)]
            IN IF fu THEN UNDEF ELSE AggVal(e.op, IF e.op = "len" THEN "int" ELSE e.a[1].ty, V, J)
      [] e.k = "win" ->
            LET I  == PartRows(e.part, R, i)
                os == e.ord
                K  == [j \in I |-> KeyVals(os, R, j)]
                (* j comes strictly before k in the window order; without arrange= the current row order counts *)
                Bef(j, k) == IF os = <<>> THEN j < k ELSE BeforeKV(os, K[j], K[k], 1)
                Tie(j, k) == os # <<>> /\ j # k /\ TieKV(os, K[j], K[k])
                anyU == \E j \in I : SeqAnyU(K[j])
                pos(j) == 1 + Cardinality({k \in I : Bef(k, j)})
            IN
            IF anyU THEN UNDEF
            ELSE CASE e.op = "row_number" -> IF \E j \in I : Tie(i, j) THEN UNDEF ELSE pos(i)
                   [] e.op = "rank" -> pos(i)
                   [] e.op = "dense_rank" ->
                        1 + Cardinality({k \in I : Bef(k, i) /\ \A m \in I : (TieKV(os, K[m], K[k]) => m >= k)})
                   [] e.op = "shift" ->
                        IF \E j, k \in I : Tie(j, k) THEN UNDEF
                        ELSE LET src == {j \in I : pos(j) = pos(i) - e.n} IN
                             IF src = {} THEN (IF e.fill = <<>> THEN NULL ELSE Ev(e.fill[1], R, i))
                             ELSE Ev(e.a[1], R, CHOOSE j \in src : TRUE)
                   [] e.op = "cum_sum" ->
                        IF \E j \in I : Tie(i, j) THEN UNDEF
                        ELSE LET J == {j \in I : j = i \/ Bef(j, i)}
                                 V == [j \in J |-> Ev(e.a[1], R, j)]
                             IN AggVal("sum", e.a[1].ty, V, J)
                   [] OTHER -> UNDEF
      [] OTHER -> UNDEF

=============================================================================
