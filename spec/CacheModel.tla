------------------------------ MODULE CacheModel ----------------------------
(***************************************************************************)
(* The metadata plane: what pipe/cache.py Cache.update maintains per verb  *)
(* (visible names in order, grouping columns, and the three fields that    *)
(* decide whether the next verb still fits into the current SQL SELECT),   *)
(* transcribed verb by verb from the code.  It is bound to the code by     *)
(* trace validation (TraceMeta.tla) and to the denotational layer by the   *)
(* invariant MetaAgree (Pipeline.tla): names computed here = column list   *)
(* of the table value.                                                     *)
(*   M = [names : Seq(Name), part : Seq(Name), lim : Nat, ngrp : Nat,      *)
(*        filt : BOOLEAN, summ : BOOLEAN]                                  *)
(* TraceMeta adds the field dts (the static type family of each visible    *)
(* column) and the frame rules of DtsAfter below.                          *)
(***************************************************************************)
EXTENDS Integers, Sequences, FiniteSets, TLC

InSeq(x, s) == \E i \in DOMAIN s : s[i] = x
Minus(s, drop) == SelectSeq(s, LAMBDA x : ~InSeq(x, drop))
SeqSet(s) == {s[i] : i \in DOMAIN s}

CmSource(names) == [names |-> names, part |-> <<>>, lim |-> -1, ngrp |-> 0, filt |-> FALSE, summ |-> FALSE]

(* select: exactly the given columns in the given order (Select branch) *)
CmSelect(M, cols) == [M EXCEPT !.names = cols]
(* drop = select of the remaining names in the current order (pipe/verbs.py drop) *)
CmDrop(M, cols) == [M EXCEPT !.names = Minus(M.names, cols)]
(* rename: names replaced in place; map = Seq(<<old, new>>) *)
CmRename(M, map) ==
    LET new(n) == IF \E i \in DOMAIN map : map[i][1] = n THEN map[CHOOSE i \in DOMAIN map : map[i][1] = n][2] ELSE n
    IN [M EXCEPT !.names = [i \in DOMAIN M.names |-> new(M.names[i])],
                 !.part = [i \in DOMAIN M.part |-> new(M.part[i])]]
(* mutate: overwritten names are dropped, the new names appended (Mutate branch, after fix 3256a6e) *)
CmMutate(M, new) == [M EXCEPT !.names = Minus(M.names, new) \o new]
CmFilter(M) == [M EXCEPT !.filt = TRUE]
CmArrange(M) == M
CmSliceHead(M, n) == [M EXCEPT !.lim = n]
RECURSIVE CmAppendNew(_, _)
CmAppendNew(base, cols) ==      \* a column named several times (or grouped already, with add) counts once
    IF cols = <<>> THEN base
    ELSE CmAppendNew(IF \E q \in DOMAIN base : base[q] = Head(cols) THEN base ELSE Append(base, Head(cols)), Tail(cols))
CmGroupBy(M, cols, add) == [M EXCEPT !.part = CmAppendNew(IF add THEN M.part ELSE <<>>, cols)]
CmUngroup(M) == [M EXCEPT !.part = <<>>]
(* summarize: grouping columns (unless overwritten) followed by the new columns; grouping consumed *)
CmSummarize(M, new) ==
    [M EXCEPT !.names = Minus(M.part, new) \o new, !.part = <<>>,
              !.ngrp = M.ngrp + Cardinality(SeqSet(M.part)), !.summ = TRUE]
CmAlias(M) == M
CmCollect(M, keep) == IF keep THEN [CmSource(M.names) EXCEPT !.part = SelectSeq(M.part, LAMBDA p : InSeq(p, M.names))]
                      ELSE CmSource(M.names)

(* join: left names unchanged, right names after the documented suffix rule (pipe/verbs.py join) *)
JoinRightNames(ln, rn, ron, rname, usfx) ==
    LET L == SeqSet(ln)
        R == SeqSet(rn)
        auto == "_" \o (IF rname = "" THEN "right" ELSE rname)
        clash == L \cap R
        onlyJoin == ((R \ SeqSet(ron)) \cap L) = {}
        renamed == IF onlyJoin THEN clash ELSE R            \* if only join columns clash, only the clashing columns are renamed
        taken == L \cup (R \ renamed)
        S(k) == IF k = 0 THEN auto ELSE auto \o "_" \o ToString(k)
        need(k) == \E n \in renamed : (n \o S(k)) \in taken
        \* the smallest integer that resolves all collisions (as repaired by F28; the documentation only says "an integer")
        kk == CHOOSE k \in 0..50 : ~need(k) /\ \A j \in 0..(k - 1) : need(j)
        sfx == S(kk)
    IN  IF usfx # "" THEN [i \in DOMAIN rn |-> rn[i] \o usfx]
        ELSE IF clash = {} THEN rn
        ELSE IF onlyJoin THEN [i \in DOMAIN rn |-> IF rn[i] \in L THEN rn[i] \o sfx ELSE rn[i]]
        ELSE [i \in DOMAIN rn |-> rn[i] \o sfx]
CmJoin(ML, MR, ron, rname, usfx, how) ==
    [CmSource(ML.names \o JoinRightNames(ML.names, MR.names, ron, rname, usfx))
        EXCEPT !.filt = ML.filt \/ (how = "inner" /\ MR.filt)]      \* an inner join puts the right side's predicates into WHERE (F27)
CmUnion(ML, MR) == [CmSource(ML.names) EXCEPT !.filt = ML.filt]

=============================================================================
