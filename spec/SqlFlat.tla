------------------------------- MODULE SqlFlat ------------------------------
(***************************************************************************)
(* The SQL compiler's accumulator, implementation-shaped:                  *)
(*   - `Cs`  : the three Cache fields that decide whether the next verb    *)
(*             still fits into the current SELECT (pipe/cache.py),         *)
(*   - `Rq`  : RequiresSubquery, the catalogue of verb / state             *)
(*             combinations that need a subquery, transcribed rule by rule *)
(*             from Cache.requires_subquery (as of the fixed tree),        *)
(*   - `Q`   : the Query record of backend/sql.py (select-list             *)
(*             definitions, WHERE, GROUP BY, HAVING, ORDER BY, LIMIT /     *)
(*             OFFSET) with Acc, the clause placement of compile_ast,      *)
(*   - FlatEval: SQL's fixed logical evaluation order                      *)
(*             FROM -> WHERE -> GROUP BY -> HAVING -> window functions ->  *)
(*             ORDER BY -> LIMIT, expressed with the verb operators of     *)
(*             Table.tla applied in THAT order.                            *)
(* FlatCorrect (MC_SqlFlat): whenever the catalogue accepts a verb, the    *)
(* flattened query evaluates to the sequential meaning.                    *)
(* Linear single-source pipelines; joins / unions always start a new       *)
(* SELECT in the code and are covered by replay only.                      *)
(***************************************************************************)
EXTENDS Alpha

---------------------------------------------------------------------------
(* Cache fields *)
Cs0 == [lim |-> -1,      \* -1: no LIMIT yet (slice_head(0) is a limit, fix F37)
        grp |-> {}, summ |-> FALSE, filt |-> FALSE]

RECURSIVE AggWinOps(_)
AggWinOps(e) ==        \* the aggregate / window operator nodes of a surface expression
    CASE e.k \in {"agg", "win"} -> <<e>> \o Flat([i \in DOMAIN e.a |-> AggWinOps(e.a[i])])
      [] e.k = "fn" -> Flat([i \in DOMAIN e.a |-> AggWinOps(e.a[i])])
      [] e.k = "case" -> Flat([i \in DOMAIN e.cs |-> AggWinOps(e.cs[i].c) \o AggWinOps(e.cs[i].v)]) \o Flat([i \in DOMAIN e.d |-> AggWinOps(e.d[i])])
      [] e.k = "cast" -> AggWinOps(e.e)
      [] OTHER -> <<>>

RECURSIVE ColsOf(_)
ColsOf(e) ==           \* column ids referenced anywhere in a surface expression (incl. context arguments)
    CASE e.k = "col" -> {e.id}
      [] e.k = "fn" -> UNION {ColsOf(e.a[i]) : i \in DOMAIN e.a}
      [] e.k = "agg" -> UNION ({ColsOf(e.a[i]) : i \in DOMAIN e.a} \cup {ColsOf(e.f[i]) : i \in DOMAIN e.f} \cup {ColsOf(e.part[i]) : i \in DOMAIN e.part})
      [] e.k = "win" -> UNION ({ColsOf(e.a[i]) : i \in DOMAIN e.a} \cup {ColsOf(e.ord[i].e) : i \in DOMAIN e.ord}
                               \cup {ColsOf(e.part[i]) : i \in DOMAIN e.part} \cup {ColsOf(e.fill[i]) : i \in DOMAIN e.fill})
      [] e.k = "case" -> UNION ({ColsOf(e.cs[i].c) \cup ColsOf(e.cs[i].v) : i \in DOMAIN e.cs} \cup {ColsOf(e.d[i]) : i \in DOMAIN e.d})
      [] e.k = "cast" -> ColsOf(e.e)
      [] OTHER -> {}

MoveExprs(m) == CASE m.v \in {"mutate", "summarize"} -> [i \in DOMAIN m.kv |-> m.kv[i].e]
                  [] m.v = "filter" -> m.ps
                  [] m.v = "arrange" -> [i \in DOMAIN m.os |-> m.os[i].e]
                  [] OTHER -> <<>>

(* Cache.requires_subquery; t = the table the verb is applied to, c = its Cache fields.  "" = fits                      *)
(* The code reads column kinds from two places: `ck` = the kinds recorded in the Cache (reset to element-wise by a      *)
(* SubqueryMarker) and `ek` = the kinds carried by the Col objects inside the verb's expressions (the objects the user  *)
(* holds: they keep the kind they were created with, also across a subquery).  Rq is the ideal catalogue (both = the    *)
(* true kinds t.fk); MC_SqlFlat tracks the two separately (named deviation: the code is more conservative).             *)
Rq2(c, t, ck, ek, m) ==
    LET es  == MoveExprs(m)
        cols == UNION {ColsOf(es[i]) : i \in DOMAIN es} \cap Scope(t)
        ops == Flat([i \in DOMAIN es |-> AggWinOps(es[i])])
        partset == {t.part[i] : i \in DOMAIN t.part}
    IN
    IF m.v \in {"filter", "summarize", "arrange", "group_by"} /\ c.lim # -1 THEN "after slice_head"
    ELSE IF m.v = "mutate" /\ c.lim # -1 /\ ops # <<>> THEN "window in mutate after slice_head"
    ELSE IF m.v = "mutate" /\ \E i \in DOMAIN ops : \E x \in ColsOf(ops[i]) \cap Scope(t) : ek[x] \in {"w", "a"}
         THEN "nested window / aggregation in mutate"
    ELSE IF m.v = "filter" /\ \E x \in cols : ek[x] = "w" THEN "window function in filter"
    ELSE IF m.v = "filter" /\ \E x \in Scope(t) : ck[x] = "w" THEN "filter after a window function column"
    ELSE IF m.v = "summarize" /\ c.grp # {} /\ c.grp # partset THEN "nested summarize"
    ELSE IF m.v = "summarize" /\ c.summ THEN "nested summarize"
    ELSE IF m.v = "summarize" /\ \E x \in cols : ek[x] \in {"w", "a"} THEN "nested window / aggregation in summarize"
    ELSE IF m.v = "summarize" /\ \E x \in partset : ck[x] = "w" THEN "window function among grouping columns"
    ELSE ""

Rq(c, t, m) == Rq2(c, t, t.fk, t.fk, m)

(* the kind a new column gets from its defining expression (ColFn.ftype): e(e)->e, e(a)->a, e(w)->w; an aggregate in mutate is a window *)
KindFrom(e, ek, inMutate, scope) ==
    LET ops == AggWinOps(e)
        ks == {ek[x] : x \in ColsOf(e) \cap scope}
    IN IF ops # <<>> THEN (IF inMutate \/ \E i \in DOMAIN ops : ops[i].k = "win" THEN "w" ELSE "a")
       ELSE IF "w" \in ks THEN "w" ELSE IF "a" \in ks THEN "a" ELSE "e"

CsUpdate(c, t, m) ==
    CASE m.v = "filter" -> [c EXCEPT !.filt = TRUE]
      [] m.v = "slice_head" -> [c EXCEPT !.lim = m.n]
      [] m.v = "summarize" -> [c EXCEPT !.grp = c.grp \cup {t.part[i] : i \in DOMAIN t.part}, !.summ = TRUE]
      [] OTHER -> c

---------------------------------------------------------------------------
(* Query accumulator.  base: the table value FROM denotes.  defs: select-list definitions  *)
(* [id, n, e, ep] in creation order, ep = 0 before / 1 the summarize itself / 2 after it.  *)
Q0(t) == [base |-> [t EXCEPT !.part = <<>>], defs |-> <<>>, where |-> <<>>, having |-> <<>>, gb |-> <<>>, summ |-> FALSE,
          ob |-> <<>>, lim |-> -1, off |-> 0, part |-> t.part]

(* LimitCompose: the composition of LIMIT / OFFSET without a subquery - defined in ValuesCore.tla, proved correct for all naturals in Proofs.tla *)

Acc(q, m, nid, tnew) ==     \* tnew: the sequential result (only the KIND of the new columns is read from it)
    CASE m.v = "mutate" ->
            [q EXCEPT !.defs = q.defs \o [i \in DOMAIN m.kv |-> [id |-> nid + i - 1, n |-> m.kv[i].n, e |-> m.kv[i].e,
                                                                 ep |-> IF q.summ THEN 2 ELSE 0, part |-> q.part,
                                                                 kd |-> tnew.fk[nid + i - 1]]]]
      [] m.v = "filter" -> IF q.gb # <<>> \/ q.summ THEN [q EXCEPT !.having = q.having \o m.ps]
                           ELSE [q EXCEPT !.where = q.where \o m.ps]
      [] m.v = "arrange" -> [q EXCEPT !.ob = m.os \o q.ob]
      [] m.v = "slice_head" -> LET r == LimitCompose(q.lim, q.off, m.n, m.k) IN [q EXCEPT !.lim = r[1], !.off = r[2]]
      [] m.v = "group_by" -> [q EXCEPT !.part = IF m.add THEN q.part \o [i \in DOMAIN m.cs |-> m.cs[i].id]
                                                ELSE [i \in DOMAIN m.cs |-> m.cs[i].id]]
      [] m.v = "ungroup" -> [q EXCEPT !.part = <<>>]
      [] m.v = "summarize" ->
            [q EXCEPT !.defs = q.defs \o [i \in DOMAIN m.kv |-> [id |-> nid + i - 1, n |-> m.kv[i].n, e |-> m.kv[i].e, ep |-> 1, part |-> q.part, kd |-> "a"]],
                      !.gb = q.gb \o q.part, !.summ = TRUE, !.part = <<>>, !.ob = <<>>]
      [] OTHER -> q       \* select / drop / rename / alias(keep_col_refs=True): projection and names only

---------------------------------------------------------------------------
(* FlatEval: the meaning of the accumulated SELECT under SQL's logical evaluation order.   *)
(* kind(d): "e" | "a" | "w" of definition d = how the column was made in the sequential    *)
(* table (its fk), which is exactly what decides the stage at which SQL evaluates it.      *)

RECURSIVE MutAll(_, _, _)
MutAll(r, ds, i) ==       \* add the definitions ds[i..] one by one (each keeps its identity), stop at the first failure
    IF ~r.ok \/ i > Len(ds) THEN r
    ELSE MutAll(Mutate([r.t EXCEPT !.part = ds[i].part], <<KV(ds[i].n, ds[i].e)>>, ds[i].id), ds, i + 1)

RECURSIVE FilAll(_, _, _)
FilAll(r, ps, i) == IF ~r.ok \/ i > Len(ps) THEN r ELSE FilAll(Filter(r.t, <<ps[i]>>), ps, i + 1)

FlatEval(q) ==
    LET kind(d) == d.kd
        d0e == SelectSeq(q.defs, LAMBDA d : d.ep = 0 /\ kind(d) = "e")
        d0w == SelectSeq(q.defs, LAMBDA d : d.ep = 0 /\ kind(d) # "e")
        d1  == SelectSeq(q.defs, LAMBDA d : d.ep = 1)
        d2e == SelectSeq(q.defs, LAMBDA d : d.ep = 2 /\ kind(d) # "w")
        d2w == SelectSeq(q.defs, LAMBDA d : d.ep = 2 /\ kind(d) = "w")
        A == MutAll(Ok(q.base), d0e, 1)                                   \* FROM + scalar select-list expressions
        B == FilAll(A, q.where, 1)                                        \* WHERE
        C == IF ~B.ok THEN B
             ELSE IF q.summ THEN Summarize([B.t EXCEPT !.part = q.gb], [i \in DOMAIN d1 |-> KV(d1[i].n, d1[i].e)],
                                           IF d1 = <<>> THEN 0 ELSE d1[1].id)            \* GROUP BY + aggregates
             ELSE B
        C2 == MutAll(C, d2e, 1)
        H == FilAll(C2, q.having, 1)                                      \* HAVING
        W == MutAll(H, IF q.summ THEN d2w ELSE d0w, 1)                    \* window functions see the rows left by WHERE / GROUP BY / HAVING
        O == IF ~W.ok \/ q.ob = <<>> THEN W ELSE Arrange(W.t, q.ob)       \* ORDER BY
        L == IF ~O.ok \/ q.lim = -1 THEN O ELSE SliceHead([O.t EXCEPT !.part = <<>>], q.lim, q.off)   \* LIMIT / OFFSET
    IN L

(* a column defined by a constant expression (types.is_const of its dtype): a literal, or an expression over literals only *)
IsConstCol(t, x) == x \in t.cst

(* the flattened query yields the same visible data as the sequential meaning t *)
SameVisible(r, t) ==
    /\ r.ok
    /\ VisSet(t) \subseteq Scope(r.t)
    /\ LET a == [i \in DOMAIN r.t.rows |-> [j \in DOMAIN t.vis |-> r.t.rows[i][t.vis[j]]]]
           b == [i \in DOMAIN t.rows |-> [j \in DOMAIN t.vis |-> t.rows[i][t.vis[j]]]]
       IN Len(a) = Len(b) /\ \A i \in DOMAIN a : Cardinality({x \in DOMAIN a : a[x] = a[i]}) = Cardinality({x \in DOMAIN b : b[x] = a[i]})

=============================================================================
