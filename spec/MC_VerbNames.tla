---------------------------- MODULE MC_VerbNames ----------------------------
(***************************************************************************)
(* C02 / C11, names: what `rename`, `select`, `drop` and `mutate` do to    *)
(* the list of visible column names, as predicates, for EVERY argument     *)
(* over a small universe of names (visible, hidden and non-existent ones). *)
(* Same two modes as MC_JoinNames: "gen" enumerates the configurations,    *)
(* the harness performs each call on the real code and records the names   *)
(* the table reports, the names the export has and the error class;        *)
(* "check" judges every record (total verdict naming the failing clause).  *)
(*   rename (docstring + checks in pipe/verbs.py): every key must be a     *)
(*   visible column, the result must not contain a name twice (the new     *)
(*   names are applied simultaneously, so swaps are fine; a hidden column  *)
(*   may share a name with a visible one) - otherwise ValueError.          *)
(*   mutate: replaced columns are dropped, new ones appended in keyword    *)
(*   order.  select: exactly the given columns in the given order.  drop:  *)
(*   the others in their old order.  summarize: the grouping columns (those *)
(*   not overwritten by an aggregate) followed by the aggregates.           *)
(***************************************************************************)
EXTENDS Integers, Sequences, FiniteSets, TLC, Json, IOUtils

CONSTANTS Mode, Cols, Keys, Vals      \* Cols: the table's columns (sequence); Keys / Vals: candidate keys and new names of a rename

SeqSet(s) == {s[i] : i \in DOMAIN s}
Distinct(s) == \A i, j \in DOMAIN s : i # j => s[i] # s[j]
SubSeqs(u) == {SelectSeq(u, LAMBDA x : x \in S) : S \in SUBSET SeqSet(u)}
MapS(s, F(_)) == [i \in DOMAIN s |-> F(s[i])]
Perms(S) == {p \in [1..Cardinality(S) -> S] : \A i, j \in 1..Cardinality(S) : i # j => p[i] # p[j]}
Arrs(S, n) == UNION {Perms(T) : T \in {T \in SUBSET S : Cardinality(T) = n}}       \* arrangements of n distinct elements

(* a rename map as a sequence of <<key, value>> pairs with distinct keys *)
RenameMaps == UNION {{[i \in DOMAIN ks |-> <<ks[i], f[i]>>] : f \in [DOMAIN ks -> SeqSet(Vals)]} : ks \in SubSeqs(Keys)}
Visibles == {v \in SubSeqs(Cols) : v # <<>>}

(* form: how the columns are named in the call - through the table (t.a), as a placeholder (C.a) or as a string ("a"); all three *)
(* must mean the same column                                                                                                      *)
Forms == {"col", "cname", "str"}
Configs ==
       {[verb |-> "rename", vis |-> v, map |-> m, args |-> <<>>, form |-> f] : v \in Visibles, m \in RenameMaps, f \in {"str"}}
  \cup UNION {{[verb |-> "rename", vis |-> v, map |-> m, args |-> <<>>, form |-> f] :
                 m \in {m \in RenameMaps : Len(m) <= 2 /\ \A i \in DOMAIN m : m[i][1] \in SeqSet(v)}, f \in {"col", "cname"}} : v \in Visibles}
  \cup UNION {{[verb |-> "select", vis |-> v, map |-> <<>>, args |-> a, form |-> f] : a \in UNION {Arrs(SeqSet(v), n) : n \in 1..Len(v)}, f \in Forms} : v \in Visibles}
  \* select with a column named twice (selected once, at its first position) and, by string, a name that does not exist
  \cup UNION {{[verb |-> "select", vis |-> v, map |-> <<>>, args |-> a, form |-> f] :
                 a \in {<<x, y, x>> : x \in SeqSet(v), y \in SeqSet(v)} \cup {<<x, x>> : x \in SeqSet(v)}, f \in Forms} : v \in Visibles}
  \cup UNION {{[verb |-> "select", vis |-> v, map |-> <<>>, args |-> <<x, "zz">>, form |-> "str"] : x \in SeqSet(v)} : v \in Visibles}
  \cup UNION {{[verb |-> "drop", vis |-> v, map |-> <<>>, args |-> a, form |-> f] : a \in {s \in SubSeqs(v) : s # v}, f \in Forms} : v \in Visibles}
  \cup {[verb |-> "mutate", vis |-> v, map |-> <<>>, args |-> a, form |-> f] : v \in Visibles, a \in UNION {Arrs(SeqSet(Vals), n) : n \in 1..2}, f \in {"col", "cname"}}
  \* summarize: map = the grouping columns (as pairs <<name, name>>), args = the names of the aggregates
  \cup UNION {{[verb |-> "summarize", vis |-> v, map |-> [i \in DOMAIN gs |-> <<gs[i], gs[i]>>], args |-> a, form |-> f] :
                 gs \in UNION {Arrs(SeqSet(v), n) : n \in 0..(IF Len(v) >= 2 THEN 2 ELSE 1)}, a \in UNION {Arrs(SeqSet(Vals), n) : n \in 1..2}, f \in Forms} : v \in Visibles}

Lookup(m, n) == IF \E i \in DOMAIN m : m[i][1] = n THEN m[CHOOSE i \in DOMAIN m : m[i][1] = n][2] ELSE n

Names(s) == [err |-> "", names |-> s]
Expected(c) ==      \* the names, or the documented error
    CASE c.verb = "rename" ->
            LET keys == {c.map[i][1] : i \in DOMAIN c.map}
                out == MapS(c.vis, LAMBDA n : Lookup(c.map, n))
            IN IF ~(keys \subseteq SeqSet(c.vis)) \/ ~Distinct(out) THEN [err |-> "ValueError", names |-> <<>>] ELSE Names(out)
      [] c.verb = "select" -> IF ~(SeqSet(c.args) \subseteq SeqSet(c.vis)) THEN [err |-> "ColumnNotFoundError", names |-> <<>>]
                              ELSE Names(SelectSeq([i \in DOMAIN c.args |-> IF \E j \in 1..(i - 1) : c.args[j] = c.args[i] THEN "" ELSE c.args[i]], LAMBDA n : n # ""))
      [] c.verb = "drop" -> Names(SelectSeq(c.vis, LAMBDA n : n \notin SeqSet(c.args)))
      [] c.verb = "mutate" -> Names(SelectSeq(c.vis, LAMBDA n : n \notin SeqSet(c.args)) \o c.args)
      [] c.verb = "summarize" ->      \* the grouping columns that are not overwritten, then the aggregates
            Names(SelectSeq([i \in DOMAIN c.map |-> c.map[i][1]], LAMBDA n : n \notin SeqSet(c.args)) \o c.args)

Judge(c, out, exp, err) ==
    LET e == Expected(c) IN
    IF e.err # "" THEN (IF err = e.err THEN "ok" ELSE IF err = "" THEN "invalid-call-accepted" ELSE "wrong-error-class")
    ELSE IF err # "" THEN "unexpected-error"
    ELSE IF out # e.names THEN "names"
    ELSE IF exp # e.names THEN "export-names"
    ELSE "ok"

(* the two transcriptions of the metadata plane agree: CacheModel.tla (used by TraceMeta and MetaAgree) computes the same names as *)
(* the predicates above for every valid configuration                                                                               *)
CM == INSTANCE CacheModel
CmNames(c) ==
    LET M == CM!CmSource(c.vis) IN
    CASE c.verb = "rename" -> CM!CmRename(M, c.map).names
      [] c.verb = "select" -> CM!CmSelect(M, Expected(c).names).names
      [] c.verb = "drop" -> CM!CmDrop(M, c.args).names
      [] c.verb = "mutate" -> CM!CmMutate(M, c.args).names
      [] c.verb = "summarize" -> CM!CmSummarize(CM!CmGroupBy(M, [i \in DOMAIN c.map |-> c.map[i][1]], FALSE), c.args).names
SpecsAgree == \A c \in Configs : Expected(c).err = "" => CmNames(c) = Expected(c).names

Recs == IF Mode = "check" THEN ndJsonDeserialize(IOEnv.VERIF_VERBNAMES) ELSE <<>>

ASSUME Mode = "gen" => SpecsAgree
ASSUME Mode = "gen" => \A c \in Configs : PrintT(ToJson(c))
ASSUME Mode = "check" => \A i \in DOMAIN Recs : PrintT(ToJson([i |-> i, verdict |-> Judge(Recs[i].c, Recs[i].out, Recs[i].exp, Recs[i].err)]))

VARIABLE x
Init == x = 0
Next == FALSE /\ x' = x
=============================================================================
