---------------------------- MODULE MC_JoinNames ----------------------------
(***************************************************************************)
(* C06, names after a join: the documented suffix rule (pipe/verbs.py,     *)
(* docstring of join, parameter `suffix`) as a predicate, for EVERY        *)
(* configuration of visible names over a small universe that contains the  *)
(* table-name suffix and the numeric suffixes.                             *)
(*   Mode = "gen"   : TLC enumerates the configurations (one JSON line     *)
(*                    each); the harness performs each join on the real    *)
(*                    code and records the resulting column names / error. *)
(*   Mode = "check" : TLC reads the recorded outcomes and judges each one  *)
(*                    with Judge (total verdict, names the failing clause).*)
(* The integer of the numeric suffix is NOT fixed by the documentation     *)
(* ("additionally an integer is appended"): any k that makes the names     *)
(* distinct is accepted; MinimalK only counts how often the code takes the *)
(* smallest one (CacheModel.JoinRightNames assumes it for the alphabets).  *)
(***************************************************************************)
EXTENDS Integers, Sequences, FiniteSets, TLC, Json, IOUtils

CONSTANTS Mode, Lu, Ru, UserSuffixes, Auto      \* Lu, Ru: sequences of candidate names; Auto: "_" \o right table name

SeqSet(s) == {s[i] : i \in DOMAIN s}
Distinct(s) == \A i, j \in DOMAIN s : i # j => s[i] # s[j]
SubSeqs(u) == {SelectSeq(u, LAMBDA x : x \in S) : S \in SUBSET SeqSet(u)}       \* sub-sequences in the order of u
MapS(s, F(_)) == [i \in DOMAIN s |-> F(s[i])]
Sfx(k) == IF k = 0 THEN Auto ELSE Auto \o "_" \o ToString(k)

(* configurations: both tables always have a key column (lk / rk) that never clashes *)
Configs ==
    {[l |-> <<"lk">> \o ls, r |-> <<"rk">> \o rs, onmode |-> om, usfx |-> us] :
        ls \in SubSeqs(Lu), rs \in SubSeqs(Ru), om \in {"keys", "same", "cross"}, us \in UserSuffixes}
(* on: "keys" = l.lk == r.rk, "same" = the string "a" (l.a == r.a), "cross" = l.a == r.b (differently named columns, while the *)
(* right table may ALSO have a column a, which is then no join column)                                                          *)
Valid(c) == /\ (c.onmode = "same" => ("a" \in SeqSet(c.l) /\ "a" \in SeqSet(c.r)))
            /\ (c.onmode = "cross" => ("a" \in SeqSet(c.l) /\ "b" \in SeqSet(c.r)))
Ron(c) == IF c.onmode = "same" THEN {"a"} ELSE IF c.onmode = "cross" THEN {"b"} ELSE {"rk"}        \* right columns used in `on`

(* the documented rule *)
Judge(c, out, err) ==
    LET L == SeqSet(c.l)
        R == SeqSet(c.r)
        nl == Len(c.l)
        left == SubSeq(out, 1, nl)
        right == SubSeq(out, nl + 1, Len(out))
        allRenamed(s) == right = MapS(c.r, LAMBDA n : n \o s)
        clashRenamed(s) == right = MapS(c.r, LAMBDA n : IF n \in L THEN n \o s ELSE n)
        onlyJoin == ((R \ Ron(c)) \cap L) = {}
    IN
    IF c.usfx # "" /\ \E n \in R : (n \o c.usfx) \in L
        THEN (IF err = "ValueError" THEN "ok" ELSE "user-suffix-collision-not-rejected")
    ELSE IF err # "" THEN "unexpected-error"
    ELSE IF Len(out) # nl + Len(c.r) THEN "column-count"
    ELSE IF left # c.l THEN "left-names-changed"
    ELSE IF ~Distinct(out) THEN "duplicate-names"
    ELSE IF c.usfx # "" THEN (IF allRenamed(c.usfx) THEN "ok" ELSE "user-suffix-not-applied")
    ELSE IF L \cap R = {} THEN (IF right = c.r THEN "ok" ELSE "renamed-without-collision")
    ELSE IF \E k \in 0..20 : (IF onlyJoin THEN clashRenamed(Sfx(k)) ELSE allRenamed(Sfx(k))) THEN "ok"
    ELSE "auto-suffix-pattern"

(* the smallest integer that resolves all collisions (0 = the table-name suffix alone) *)
MinimalK(c) ==
    LET L == SeqSet(c.l)
        R == SeqSet(c.r)
        onlyJoin == ((R \ Ron(c)) \cap L) = {}
        names(k) == {IF onlyJoin /\ n \notin L THEN n ELSE n \o Sfx(k) : n \in R}
    IN CHOOSE k \in 0..20 : names(k) \cap L = {} /\ \A j \in 0..(k - 1) : names(j) \cap L # {}

(* CacheModel.JoinRightNames (the transcription used by TraceMeta; it fixes the smallest integer) satisfies the documented rule *)
CM == INSTANCE CacheModel
RonSeq(c) == IF c.onmode = "same" THEN <<"a">> ELSE IF c.onmode = "cross" THEN <<"b">> ELSE <<"rk">>
SpecsAgree == \A c \in Configs : (Valid(c) /\ ~(c.usfx # "" /\ \E n \in SeqSet(c.r) : (n \o c.usfx) \in SeqSet(c.l)))
                                  => Judge(c, c.l \o CM!JoinRightNames(c.l, c.r, RonSeq(c), "t2", c.usfx), "") = "ok"

Recs == IF Mode = "check" THEN ndJsonDeserialize(IOEnv.VERIF_JOINNAMES) ELSE <<>>

ASSUME Mode = "gen" => SpecsAgree
ASSUME Mode = "gen" =>
    \A c \in Configs : Valid(c) => PrintT(ToJson(c))

ASSUME Mode = "check" =>
    \A i \in DOMAIN Recs :
        LET rc == Recs[i]
            v == Judge(rc.c, rc.out, rc.err)
            mk == IF v = "ok" /\ rc.err = "" /\ rc.c.usfx = "" /\ SeqSet(rc.c.l) \cap SeqSet(rc.c.r) # {}
                  THEN (IF \E q \in {0} : TRUE THEN MinimalK(rc.c) ELSE 0) ELSE -1
        IN PrintT(ToJson([i |-> i, verdict |-> v, mink |-> mk]))

VARIABLE x
Init == x = 0
Next == FALSE /\ x' = x
=============================================================================
