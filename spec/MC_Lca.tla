------------------------------- MODULE MC_Lca -------------------------------
(***************************************************************************)
(* Type unification (`types.lca_type`): the type of a case expression,     *)
(* of a list literal and the compatibility test of `union` columns.        *)
(* No document fixes WHICH common type is chosen for every family (decimal *)
(* precision arithmetic, enum / string widening), so the specification     *)
(* states the laws every unification must satisfy and TLC judges the       *)
(* recorded outcomes of the real function against them:                    *)
(*   total          a type or DataTypeError (TypeError for `union`), never *)
(*                  an internal error;                                     *)
(*   order-free     every permutation of the arguments gives one outcome;  *)
(*   null-neutral   adding the null type changes nothing;                  *)
(*   idempotent     lca(t, .., t) = t;                                     *)
(*   upper bound    every argument converts implicitly to the result       *)
(*                  (Conv of the extracted catalogue);                     *)
(*   complete and minimal on the simple families (integers, floats, bool,  *)
(*                  temporal types): rejected only if no common implicit   *)
(*                  conversion target exists, otherwise a target of        *)
(*                  minimal summed conversion cost;                        *)
(*   uniform        CaseExpr.dtype and the union check decide like         *)
(*                  lca_type itself.                                       *)
(* Mode "gen": TLC enumerates the argument multisets over the non-constant *)
(* type universe; mode "check": TLC judges the harness's records.          *)
(***************************************************************************)
EXTENDS Resolve, TLC, Json, IOUtils, Sequences

CONSTANTS Mode, MaxN

VARIABLE x

NonConst == {Universe[i] : i \in DOMAIN Universe} \ ConstTypes
Idx(t) == CHOOSE i \in DOMAIN Universe : Universe[i] = t
(* argument multisets as non-decreasing sequences of universe positions *)
Sorted(s) == \A i \in 1..(Len(s) - 1) : Idx(s[i]) <= Idx(s[i + 1])
Configs == UNION {{s \in [1..n -> NonConst] : Sorted(s)} : n \in 1..MaxN}

Simple == {t \in NonConst : Family[t] \in {"Int", "Float", "Bool", "Date", "Datetime", "Time", "Duration"}}
NonNull(ts) == SelectSeq(ts, LAMBDA t : t # "NullType")
Targets(ts) == {p \in NonConst : \A i \in DOMAIN ts : p \in DOMAIN Conv[ts[i]]}
Cost(ts, p) == SumCost(ts, [i \in DOMAIN ts |-> p], 1)
Minimal(ts) == {p \in Targets(ts) : \A q \in Targets(ts) : ~LexLess(Cost(ts, q), Cost(ts, p))}

CaseConst(condsConst, valuesConst) == condsConst /\ valuesConst
IsTy(o) == o[1] = "type"
Rejected(o) == o[1] = "DataTypeError"

(* outs / withnull / cases: sets (as sequences without duplicates) of outcomes <<kind, type token>> over all argument orders;   *)
(* unions: outcomes of `union` of two one-column tables (pairs only), kind "TypeError" for the documented refusal               *)
Judge(c, r) ==
    LET ts == c.ts
        nn == NonNull(ts)
        O  == {r.outs[i] : i \in DOMAIN r.outs}
        ON == {r.withnull[i] : i \in DOMAIN r.withnull}
        OC == {r.cases[i] : i \in DOMAIN r.cases}
        OU == {r.unions[i] : i \in DOMAIN r.unions}
        o  == CHOOSE q \in O : TRUE
    IN  IF \E q \in O \cup ON \cup OC : ~(IsTy(q) \/ Rejected(q)) THEN "internal-error"
        ELSE IF \E q \in OU : ~(IsTy(q) \/ q[1] = "TypeError") THEN "internal-error"
        \* a case expression is a constant iff its conditions AND its values are (r.caseconst: the constness observed for
        \* <<column condition / constant value, constant condition / constant value, constant condition / column value>>)
        ELSE IF Len(ts) = 1 /\ r.caseconst # <<>> /\ r.caseconst # <<CaseConst(FALSE, TRUE), CaseConst(TRUE, TRUE), CaseConst(TRUE, FALSE)>> THEN "case-constness"
        ELSE IF Cardinality(O) # 1 \/ Cardinality(OC) > 1 \/ Cardinality(OU) > 1 THEN "order-dependent"
        ELSE IF ON # O THEN "null-not-neutral"
        ELSE IF OC # {} /\ OC # O THEN "case-differs"
        ELSE IF OU # {} /\ {IF q[1] = "TypeError" THEN <<"DataTypeError", "">> ELSE q : q \in OU} # O THEN "union-differs"
        ELSE IF nn = <<>> THEN (IF o = <<"type", "NullType">> THEN "ok" ELSE "null-only")
        ELSE IF IsTy(o) /\ o[2] \notin NonConst THEN "unknown-type"
        ELSE IF IsTy(o) /\ \E i \in DOMAIN nn : o[2] \notin DOMAIN Conv[nn[i]] THEN "not-an-upper-bound"
        ELSE IF (\A i \in DOMAIN nn : nn[i] = nn[1]) /\ o # <<"type", nn[1]>> THEN "not-idempotent"
        ELSE IF (\A i \in DOMAIN nn : nn[i] \in Simple) /\ Rejected(o) /\ Targets(nn) # {} THEN "rejects-compatible-types"
        ELSE IF (\A i \in DOMAIN nn : nn[i] \in Simple) /\ IsTy(o) /\ o[2] \notin Minimal(nn) THEN "not-minimal"
        ELSE "ok"

Recs == IF Mode = "check" THEN ndJsonDeserialize(IOEnv.VERIF_LCA) ELSE <<>>

ASSUME Mode = "gen" => \A c \in Configs : PrintT(ToJson([ts |-> c]))
ASSUME Mode = "check" => \A i \in DOMAIN Recs : PrintT(ToJson([i |-> i, verdict |-> Judge(Recs[i].c, Recs[i])]))

Init == x = 0
Next == FALSE /\ x' = x
=============================================================================
