-------------------------------- MODULE MC_Fn -------------------------------
(***************************************************************************)
(* Engine F: operator tables.  The source "tv" holds every pair of the     *)
(* integer test values (NULL, -7, -3, -2, -1, 0, 1, 2, 3, 7, 65), the      *)
(* boolean pairs and a float column; each move is ONE mutate with one      *)
(* operator in one syntactic form, so TLC computes the complete value      *)
(* table of the operator and the replayer compares it cell by cell on both *)
(* back ends.  Cells outside the backend-independent fragment are UNDEF.   *)
(***************************************************************************)
EXTENDS Pipeline, Sources

CONSTANT SrcSel
SrcHeapsCore == [k \in DOMAIN SrcSel |-> <<SrcTables[SrcSel[k]]>>]

IntBin  == <<"add", "sub", "mul", "floordiv", "mod", "truediv", "eq", "ne", "lt", "le", "gt", "ge", "fill_null">>
BoolBin == <<"and", "or", "xor", "eq", "ne", "fill_null">>
Lits    == <<LitI(-3), LitI(0), LitI(2), LitN>>

FnExprs(t) ==
    LET x == Col(ByName(t)["x"])
        y == Col(ByName(t)["y"])
        p == Col(ByName(t)["p"])
        q == Col(ByName(t)["q"])
        f == Col(ByName(t)["f"])
    IN  \* column (op) column, equal operands, column (op) literal, literal (op) column, one level of nesting
        MapS(IntBin, LAMBDA o : Fn2(o, x, y))
        \o MapS(IntBin, LAMBDA o : Fn2(o, x, x))
        \o Flat(MapS(IntBin, LAMBDA o : MapS(Lits, LAMBDA l : Fn2(o, x, l))))
        \o Flat(MapS(SelectSeq(IntBin, LAMBDA o : o # "fill_null"), LAMBDA o : MapS(SubSeq(Lits, 1, 3), LAMBDA l : Fn2(o, l, y))))
        \o MapS(IntBin, LAMBDA o : Fn2(o, Fn2("add", x, LitI(1)), Fn1("neg", y)))
        \o <<Fn1("neg", x), Fn1("abs", x), Fn1("pos", x), Fn1("is_null", x), Fn1("is_not_null", x),
             Fn1("neg", LitI(-3)), Fn2("sub", x, Fn1("neg", LitI(-3))), Fn1("neg", Fn1("neg", x)), Fn1("neg", LitI(0)),
             Fn2("add", Fn2("mul", Fn2("floordiv", x, y), y), Fn2("mod", x, y))>>
        \* booleans: Kleene logic
        \o MapS(BoolBin, LAMBDA o : Fn2(o, p, q))
        \o MapS(BoolBin, LAMBDA o : Fn2(o, p, LitB(TRUE)))
        \o MapS(BoolBin, LAMBDA o : Fn2(o, p, LitB(FALSE)))
        \o MapS(SelectSeq(BoolBin, LAMBDA o : o # "fill_null"), LAMBDA o : Fn2(o, LitB(TRUE), q))
        \o <<Fn1("not", p), Fn1("is_null", p), Fn2("and", Fn1("not", p), Fn2("or", q, p)), Fn2("add", p, q),
             Fn2("or", Fn2("lt", x, y), p), Fn2("and", Fn2("eq", x, y), Fn1("is_null", q)),
             FnN("hall", <<p, q>>), FnN("hany", <<p, q>>), FnN("hall", <<p, q, Fn2("gt", x, LitI(0))>>),
             FnN("hany", <<p, q, Fn2("gt", x, LitI(0))>>)>>
        \* horizontal functions, is_in, coalesce, clip
        \o <<FnN("hmax", <<x, y>>), FnN("hmin", <<x, y>>), FnN("hmax", <<x, y, LitI(1)>>), FnN("hmin", <<x, y, LitI(1)>>),
             FnN("hmax", <<x, LitN, y>>), FnN("hsum", <<x, y>>), FnN("hsum", <<x, y, LitI(1)>>),
             FnN("coalesce", <<x, y>>), FnN("coalesce", <<x, y, LitI(9)>>), FnN("coalesce", <<LitN, x, y>>),
             FnN("is_in", <<x, LitI(2)>>), FnN("is_in", <<x, LitI(2), LitI(-3)>>), FnN("is_in", <<x, y, LitI(0)>>),
             FnN("is_in", <<x, LitI(2), LitN>>), FnN("is_in", <<p, LitB(TRUE)>>),
             Fn3("clip", x, LitI(-2), LitI(3)), Fn3("clip", x, LitI(0), LitI(0)), Fn3("clip", y, LitI(1), LitI(65)),
             Fn3("clip", x, LitF(1, 2), LitF(5, 2)), Fn3("clip", x, LitF(-5, 2), LitI(1)), Fn3("clip", f, LitI(0), LitI(1)),
             Fn2("round", x, LitI(-1)), Fn2("round", y, LitI(-2)), Fn2("round", Fn2("mul", x, LitI(9)), LitI(-1)),
             \* a constant argument that is an expression over literals, not a literal
             Fn2("round", f, Fn2("sub", LitI(1), LitI(1))), Fn3("clip", x, Fn2("mul", LitI(-1), LitI(2)), Fn2("add", LitI(1), LitI(2))),
             FnN("hmax", <<p, q>>), FnN("hmin", <<p, q>>),
             FnN("hmin", <<x, y, LitI(1), Fn1("neg", x)>>), FnN("hmax", <<x, y, LitI(1), Fn1("neg", x)>>),
             FnN("hmin", <<LitI(7), Fn1("neg", y), y, x, LitI(3)>>), FnN("hmax", <<LitI(-7), Fn1("neg", y), y, x, LitN>>),
             FnN("coalesce", <<LitN, LitN, y, x>>), FnN("hsum", <<x, y, x, y>>),
             \* a rounded integer is an integer: integer operators on it; the one-argument forms of the variadic functions
             Fn2("floordiv", Fn2("round", Fn2("mul", x, LitI(9)), LitI(-1)), LitI(3)), Fn2("mod", Fn2("round", Fn2("mul", x, LitI(9)), LitI(-1)), LitI(7)),
             Fn2("floordiv", Fn2("round", x, LitI(1)), LitI(2)), Fn2("floordiv", Fn2("round", x, LitI(0)), y),
             FnN("coalesce", <<x>>), FnN("hmax", <<x>>), FnN("hmin", <<y>>), FnN("hsum", <<x>>),
             \* clip with one bound missing (null) and with lower > upper (the lower bound wins)
             Fn3("clip", x, LitN, LitI(3)), Fn3("clip", x, LitI(0), LitN), Fn3("clip", x, LitI(3), LitI(-2)), Fn3("clip", f, LitI(1), LitI(0))>>
        \* case expressions: first true branch wins, null without a match.  The replayer keeps ONE python object per
        \* expression (as a user who stores `first = when(c).then(v)` in a variable does) and derives the longer case
        \* expression from the object of its prefix: the two-branch form comes first, its prefix is evaluated after it
        \o <<Case2D(Fn2("gt", x, LitI(0)), y, Fn2("lt", x, LitI(0)), Fn1("neg", y), LitN),
             [k |-> "case", cs |-> <<[c |-> Fn2("gt", x, LitI(0)), v |-> y], [c |-> Fn2("lt", x, LitI(0)), v |-> Fn1("neg", y)]>>, d |-> <<>>],
             Case1(Fn2("gt", x, LitI(0)), y),
             Case1D(Fn2("gt", x, LitI(0)), y, LitI(-1)),
             Case1D(p, x, y),
             Case2D(Fn2("gt", x, LitI(1)), LitI(1), Fn2("gt", x, LitI(-2)), LitI(2), LitI(3)),
             Case2D(p, x, q, y, LitN),
             [k |-> "case", cs |-> <<[c |-> Fn2("lt", x, y), v |-> x], [c |-> Fn2("eq", x, y), v |-> LitI(0)], [c |-> p, v |-> y]>>, d |-> <<>>],
             Case1D(Fn1("is_null", x), LitI(0), Fn2("floordiv", y, x)),
             Case1D(Fn2("eq", x, LitI(2)), LitB(TRUE), p)>>
        \* map: the first key (or key tuple) containing the value decides, the default / null otherwise
        \o <<[k |-> "map", e |-> x, ks |-> <<<<LitI(2), LitI(7)>>, <<LitI(-1)>>>>, vs |-> <<LitI(10), y>>, d |-> <<LitI(0)>>],
             [k |-> "map", e |-> x, ks |-> <<<<LitI(2)>>>>, vs |-> <<LitI(10)>>, d |-> <<>>],
             [k |-> "map", e |-> x, ks |-> <<<<LitI(0)>>, <<LitI(0), LitI(1)>>>>, vs |-> <<y, Fn1("neg", y)>>, d |-> <<x>>],
             [k |-> "map", e |-> Fn2("add", x, y), ks |-> <<<<LitI(0)>>, <<LitI(4), LitI(-4)>>>>, vs |-> <<LitI(1), LitI(2)>>, d |-> <<LitN>>],
             [k |-> "map", e |-> p, ks |-> <<<<LitB(TRUE)>>>>, vs |-> <<x>>, d |-> <<y>>]>>
        \* floats (exact binary fractions)
        \o <<Fn2("add", f, x), Fn2("sub", f, f), Fn2("mul", f, LitI(2)), Fn2("truediv", f, LitI(2)), Fn2("lt", f, x), Fn2("eq", f, f),
             Fn1("neg", f), Fn1("abs", f), Fn1("floor", f), Fn1("ceil", f), FnN("hmax", <<f, x>>), Fn2("fill_null", f, LitI(0)),
             Cast(f, "int"), Cast(x, "float"), Cast(p, "int"), Cast(Fn2("truediv", x, LitI(2)), "int"),
             Cast(Fn1("neg", f), "int"), Fn3("clip", f, LitI(-1), LitI(1)),
             Fn2("round", f, LitI(0)), Fn2("round", Fn2("add", f, Fn2("truediv", x, LitI(8))), LitI(0)), Fn2("round", x, LitI(0)),
             Fn2("pow", x, LitI(2)), Fn2("pow", f, LitI(3)), Fn2("pow", x, LitI(0)), Fn2("pow", f, x),
             \* the nan / inf tests on finite values and null, alone and inside boolean operators and case conditions
             Fn1("is_nan", f), Fn1("is_not_nan", f), Fn1("is_inf", f), Fn1("is_not_inf", f),
             Fn2("or", Fn1("is_nan", f), Fn1("is_inf", f)), Fn2("and", Fn1("is_not_nan", f), p), Fn1("not", Fn1("is_inf", f)),
             Case1D(Fn2("or", Fn1("is_nan", f), Fn1("is_inf", f)), LitI(1), LitI(0)), Fn1("is_nan", Fn2("truediv", x, LitI(2)))>>
        \* transcendental functions: null-ness, type and domain from the specification, values back end against back end
        \o Flat(MapS(<<"exp", "log", "log10", "sqrt", "cbrt", "sin", "cos", "tan", "asin", "acos", "atan">>, LAMBDA o :
              <<Fn1(o, f), Fn1(o, Fn2("truediv", x, LitI(8)))>>))

MovesFn(h, kn) ==
    LET t == h[1] IN
    IF Len(h) > 1 THEN <<>> ELSE MapS(FnExprs(t), LAMBDA e : MMutate(1, <<KV("r", e)>>))

(* thorough tier: every two-level composition of the integer-closed arithmetic operators, comparisons of compositions, *)
(* and two-level Kleene compositions - generated, not hand-picked *)
ArI  == <<"add", "sub", "mul", "floordiv", "mod">>
CmpO == <<"eq", "ne", "lt", "le", "gt", "ge">>
BoolO == <<"and", "or", "xor">>
FnExprs2(t) ==
    LET x == Col(ByName(t)["x"])
        y == Col(ByName(t)["y"])
        p == Col(ByName(t)["p"])
        q == Col(ByName(t)["q"])
    IN  Flat(MapS(ArI \o <<"truediv", "fill_null">>, LAMBDA o1 : Flat(MapS(ArI, LAMBDA o2 :
            <<Fn2(o1, Fn2(o2, x, y), y), Fn2(o1, x, Fn2(o2, y, x)), Fn2(o1, Fn2(o2, x, LitI(2)), Fn2(o2, y, LitI(-3)))>>))))
        \o Flat(MapS(CmpO, LAMBDA c : Flat(MapS(ArI, LAMBDA o2 : <<Fn2(c, Fn2(o2, x, y), x), Fn2(c, LitI(0), Fn2(o2, x, y))>>))))
        \o Flat(MapS(BoolO, LAMBDA b1 : Flat(MapS(BoolO, LAMBDA b2 :
            <<Fn2(b1, Fn2(b2, p, q), q), Fn2(b1, Fn1("not", p), Fn2(b2, q, p)), Fn1("not", Fn2(b1, p, Fn2(b2, q, LitB(TRUE))))>>))))
        \o Flat(MapS(BoolO, LAMBDA b : Flat(MapS(CmpO, LAMBDA c : <<Fn2(b, Fn2(c, x, y), p), Fn2(b, Fn2(c, x, LitI(0)), Fn2(c, y, LitI(0)))>>))))
        \o Flat(MapS(CmpO, LAMBDA c : <<Case1D(Fn2(c, x, y), x, y), Case2D(Fn2(c, x, LitI(0)), LitI(1), Fn2(c, y, LitI(0)), LitI(2), LitN),
                                        FnN("coalesce", <<Case1(Fn2(c, x, y), x), y, LitI(0)>>)>>))
        \o Flat(MapS(ArI, LAMBDA o : <<FnN("hmax", <<Fn2(o, x, y), x>>), FnN("hmin", <<Fn2(o, x, y), y, LitI(0)>>), Fn1("abs", Fn2(o, x, y)),
                                       Fn1("neg", Fn2(o, y, x)), Fn3("clip", Fn2(o, x, y), LitI(-5), LitI(5)), FnN("is_in", <<Fn2(o, x, y), x, y>>),
                                       Fn1("is_null", Fn2(o, x, y)), Cast(Fn2(o, x, y), "float")>>))

MovesFn2(h, kn) ==
    IF Len(h) > 1 THEN <<>> ELSE MapS(FnExprs2(h[1]), LAMBDA e : MMutate(1, <<KV("r", e)>>))

---------------------------------------------------------------------------
(* C18: python string literals in every operator position that takes one, against column data holding the same characters *)
Pats == <<<<97>>,
          <<98>>,
          <<39>>,
          <<34>>,
          <<92>>,
          <<37>>,
          <<95>>,
          <<45>>,
          <<59>>,
          <<47>>,
          <<42>>,
          <<32>>,
          <<10>>,
          <<233>>,
          <<46>>,
          <<36>>,
          <<94>>,
          <<40>>,
          <<91>>,
          <<43>>,
          <<63>>,
          <<124>>,
          <<123>>,
          <<58>>,
          <<92, 58>>,
          <<32, 58, 97>>,
          <<58, 97>>,
          <<97, 92, 58, 98>>,
          <<45, 45>>,
          <<47, 42>>,
          <<39, 59>>,
          <<92, 39>>,
          <<37, 37>>,
          <<95, 95>>,
          <<36, 48>>,
          <<46, 42>>,
          <<97, 37>>,
          <<95, 98>>,
          <<97, 39, 98>>,
          <<97, 98>>,
          <<97, 46, 98>>,
          <<120, 39, 32, 79, 82, 32, 39, 49, 39, 61, 39, 49>>>>

LitStr(v) == [k |-> "lit", ty |-> "str", v |-> v]
Dash == LitStr(<<45>>)

StrExprs(t) ==
    LET s == Col(ByName(t)["s"]) IN
    Flat(MapS(Pats, LAMBDA p :
        <<Fn2("eq", s, LitStr(p)), Fn2("ne", s, LitStr(p)),
          Fn2("str_starts_with", s, LitStr(p)), Fn2("str_ends_with", s, LitStr(p)), Fn2("str_contains", s, LitStr(p)),
          Fn3("str_replace_all", s, LitStr(p), Dash), Fn3("str_replace_all", s, LitStr(<<97>>), LitStr(p)),
          Fn2("add", s, LitStr(p)), Fn2("add", LitStr(p), s),
          FnN("is_in", <<s, LitStr(p), LitStr(<<122, 122>>)>>),
          Case1D(Fn2("eq", s, LitStr(p)), LitStr(p), LitStr(<<110, 111>>)),
          FnN("coalesce", <<s, LitStr(p)>>),
          \* map with a plain string key (one key, not a collection of characters) and with a tuple of strings
          [k |-> "map", e |-> s, ks |-> <<<<LitStr(p)>>, <<LitStr(<<97>>), LitStr(<<98>>)>>>>, vs |-> <<Dash, LitStr(<<110, 111>>)>>, d |-> <<>>],
          [k |-> "map", e |-> s, ks |-> <<<<LitStr(<<97, 98>>), LitStr(p)>>>>, vs |-> <<LitStr(p)>>, d |-> <<Dash>>],
          \* the pattern as a constant EXPRESSION (concatenation of literals): still data, escaped like a literal
          Fn2("str_starts_with", s, Fn2("add", LitStr(<<>>), LitStr(p))), Fn2("str_ends_with", s, Fn2("add", LitStr(p), LitStr(<<>>))),
          Fn2("str_contains", s, Fn2("add", LitStr(<<>>), LitStr(p))),
          LitStr(p)>>))
    \o <<Fn1("str_upper", s), Fn1("str_lower", s), Fn1("str_strip", s), Fn3("str_slice", s, LitI(0), LitI(1)), Fn3("str_slice", s, LitI(1), LitI(5)),
         Fn3("str_slice", s, LitI(2), LitI(0)), Fn1("str_upper", Fn2("add", s, LitStr(<<97, 32>>))), Fn1("str_strip", Fn2("add", LitStr(<<32, 32>>), Fn2("add", s, LitStr(<<32>>))))>>
    \o <<Fn1("str_len", s), LitI(-5), LitB(FALSE), LitN, Fn2("eq", Col(ByName(t)["n"]), LitI(-1)), Fn2("add", Col(ByName(t)["n"]), LitI(-3))>>
    \* the python literal None is a null operand (a comparison with it is null), not a request for IS NULL
    \o <<Fn2("eq", s, LitN), Fn2("ne", s, LitN), Fn2("eq", LitN, s), Case1D(Fn2("ne", s, LitN), Dash, LitStr(<<110>>)),
          Fn2("or", Fn2("eq", s, LitN), Fn2("eq", s, LitStr(<<97, 98>>))), FnN("is_in", <<s, LitN, LitStr(<<97, 98>>)>>), Fn2("fill_null", s, LitN)>>

MovesStr(h, kn) ==
    IF Len(h) > 1 THEN <<>> ELSE MapS(StrExprs(h[1]), LAMBDA e : MMutate(1, <<KV("r", e)>>))

---------------------------------------------------------------------------
(* C17: the documented casts on boundary values *)
LitD  == [k |-> "lit", ty |-> "date", v |-> [y |-> 2021, m |-> 3, d |-> 4]]
LitDt == [k |-> "lit", ty |-> "datetime", v |-> [y |-> 2021, m |-> 3, d |-> 4, H |-> 5, M |-> 6, S |-> 7, us |-> 80000]]
CastExprs(t) ==
    LET c(n) == Col(ByName(t)[n]) IN
    <<Cast(c("i"), "float"), Cast(c("i"), "str"), Cast(c("i"), "int"),
      Cast(c("f"), "int"), Cast(c("f"), "str"), Cast(c("f"), "float"),
      Cast(c("b"), "int"), Cast(c("b"), "float"),
      Cast(c("sn"), "int"), Cast(c("sn"), "float"), Cast(c("sf"), "float"),
      Cast(c("d"), "datetime"), Cast(c("d"), "str"), Cast(c("dt"), "date"), Cast(c("dt"), "str"),
      Cast(Cast(c("dt"), "date"), "str"), Cast(Cast(c("d"), "datetime"), "date"), Cast(Cast(c("d"), "datetime"), "str"),
      Fn1("dt_hour", Cast(c("d"), "datetime")),
      Cast(Cast(c("i"), "str"), "int"), Cast(Cast(c("f"), "str"), "float"), Cast(Cast(c("f"), "int"), "float"),
      Cast(Fn2("truediv", c("i"), LitI(4)), "int"), Cast(Fn1("neg", c("f")), "int"), Cast(Fn2("gt", c("i"), LitI(0)), "int"),
      Cast(LitN, "int"), Cast(LitN, "str"), Cast(LitI(7), "str"), Cast(LitI(-7), "float"),
      \* an explicit cast is never a no-op because the operand would convert implicitly: generic Float target, null literal
      CastG(c("i"), "float"), Cast(CastG(c("i"), "float"), "str"), Cast(CastG(LitI(7), "float"), "str"), Cast(Cast(c("i"), "float"), "str"),
      Cast(Cast(LitN, "int"), "str"), Fn2("add", Cast(LitN, "int"), c("i")),
      \* a Float expression fed from an integer column / literal is a float everywhere (its text has a decimal point)
      Cast(Fn2("fill_null", c("i"), LitF(1, 2)), "str"), Cast(FnN("coalesce", <<c("i"), c("f")>>), "str"), Cast(Fn3("clip", c("f"), LitI(0), LitI(2)), "str"),
      Cast(Case1D(Fn2("gt", c("i"), LitI(0)), c("i"), c("f")), "str"), Cast(Case1D(Fn2("gt", c("i"), LitI(0)), LitI(1), LitF(5, 2)), "str"),
      Cast(FnN("hmax", <<c("i"), c("f")>>), "str"), Cast(Fn2("mul", Case1D(Fn2("gt", c("i"), LitI(0)), c("i"), c("f")), LitI(2)), "str"),
      Fn1("dt_year", c("d")), Fn1("dt_month", c("d")), Fn1("dt_day", c("d")), Fn1("dt_year", c("dt")), Fn1("dt_month", c("dt")), Fn1("dt_day", c("dt")),
      Fn1("dt_hour", c("dt")), Fn1("dt_minute", c("dt")), Fn1("dt_second", c("dt")), Fn1("dt_year", Cast(c("d"), "datetime")),
      Fn1("dt_millisecond", c("dt")), Fn1("dt_millisecond", LitDt), Fn1("dt_millisecond", [k |-> "lit", ty |-> "datetime", v |-> [y |-> 2021, m |-> 3, d |-> 4, H |-> 0, M |-> 0, S |-> 1, us |-> 1000]]),
      \* a duration added to a datetime, in both orders (the type is what the model states; the value is left to the back end)
      Fn2("add", Fn2("sub", c("dt"), LitDt), c("dt")), Fn2("add", c("dt"), Fn2("sub", c("dt"), LitDt)), Fn2("add", Fn2("sub", c("dt"), LitDt), Fn2("sub", LitDt, c("dt"))),
      \* non-strict casts of values that do convert (the same result), also from the generic integer type of an expression
      CastNS(Fn2("floordiv", c("i"), LitI(2)), "int"), CastNS(c("f"), "int"), CastNS(c("sn"), "int"), CastNS(c("i"), "float"), CastNS(c("b"), "int"),
      \* differences of dates / datetimes (durations), also across the change of month, year and leap day, and with null
      Fn2("sub", c("d"), LitD), Fn2("sub", LitD, c("d")), Fn2("sub", c("dt"), LitDt), Fn2("sub", Cast(c("d"), "datetime"), c("dt")),
      Fn2("sub", c("d"), c("d")), Fn2("sub", Cast(c("dt"), "date"), c("d")), Fn2("sub", c("dt"), Cast(c("d"), "datetime")),
      \* constant operands (python literals)
      Cast(LitDt, "date"), Cast(LitD, "datetime"), Cast(Cast(LitDt, "date"), "str"), Cast(LitDt, "str"), Cast(LitD, "str"),
      Cast(LitB(TRUE), "int"), Cast([k |-> "lit", ty |-> "float", v |-> [n |-> -7, d |-> 2]], "int"),
      Cast([k |-> "lit", ty |-> "str", v |-> <<45, 49, 50>>], "int")>>

MovesCast(h, kn) ==
    IF Len(h) > 1 THEN <<>> ELSE MapS(CastExprs(h[1]), LAMBDA e : MMutate(1, <<KV("r", e)>>))

=============================================================================
