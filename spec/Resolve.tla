------------------------------- MODULE Resolve ------------------------------
(***************************************************************************)
(* Overload resolution, order-free:                                        *)
(*   the result for (operator, argument types) is the UNIQUE candidate of  *)
(*   minimal summed lexicographic conversion cost among all instantiations *)
(*   of all declared signatures; no candidate = rejection (DataTypeError); *)
(*   several minimal candidates = ambiguity.                               *)
(* The catalogue (signatures, conversion costs, range of the type          *)
(* variable) is DATA extracted from the code (Catalog.tla); the meaning    *)
(* above is fixed here.  ops/signature.py computes the same thing with a   *)
(* trie in declaration / dict order and an `assert` for uniqueness.        *)
(***************************************************************************)
EXTENDS Catalog, Integers, FiniteSets, FiniteSetsExt, SequencesExt

IsConstT(t) == t \in ConstTypes \/ t = "c:S"
IsVar(p)    == BaseOf[p] = "S"
MkConst(t)  == IF t \in ConstTypes THEN t ELSE CHOOSE c \in ConstTypes : BaseOf[c] = t
Convertible(a, p) == p \in DOMAIN Conv[a]
CostOf(a, p) == Conv[a][p]

(* parameter list of signature s for n arguments (vararg: the type before `...` repeats), <<>> if the arity does not fit *)
Params(s, n) ==
    LET k == Len(s.ps) IN
    IF s.va THEN (IF n >= k - 1 /\ k >= 2 THEN [i \in 1..n |-> IF i <= k - 1 THEN s.ps[i] ELSE s.ps[k - 1]] ELSE <<"#">>)
    ELSE (IF n = k THEN s.ps ELSE <<"#">>)

AddCost(c, d) == <<c[1] + d[1], c[2] + d[2]>>
RECURSIVE SumCost(_, _, _)
SumCost(args, ps, i) == IF i > Len(args) THEN <<0, 0>> ELSE AddCost(CostOf(args[i], ps[i]), SumCost(args, ps, i + 1))
LexLess(c, d) == c[1] < d[1] \/ (c[1] = d[1] /\ c[2] < d[2])

(* instantiations of one signature for the argument tuple *)
Inst(s, args) ==
    LET n  == Len(args)
        ps == Params(s, n)
    IN
    IF ps = <<"#">> THEN {}
    ELSE
    LET vpos == {i \in 1..n : IsVar(ps[i])}
        first == IF vpos = {} THEN 0 ELSE Min(vpos)
        (* the type variable ranges over the implicit conversions of the first argument it meets *)
        binds == IF first = 0 THEN {"-"} ELSE {ImplConv[BaseOf[args[first]]][j] : j \in DOMAIN ImplConv[BaseOf[args[first]]]}
        inst(b) == [i \in 1..n |-> IF IsVar(ps[i]) THEN (IF IsConstT(ps[i]) THEN MkConst(b) ELSE b) ELSE ps[i]]
        ok(b) == \A i \in 1..n : Convertible(args[i], inst(b)[i])
    IN {[ps |-> inst(b), ret |-> IF s.ret = "S" THEN b ELSE s.ret, cost |-> SumCost(args, inst(b), 1)] : b \in {x \in binds : ok(x)}}

Candidates(op, args) == UNION {Inst(op.sigs[j], args) : j \in DOMAIN op.sigs}

Best(op, args) ==
    LET C == Candidates(op, args)
        M == {c \in C : \A d \in C : ~LexLess(d.cost, c.cost)}
    IN IF C = {} THEN [o |-> "reject", ret |-> ""]
       ELSE IF Cardinality({m.ps : m \in M}) = 1 /\ Cardinality({m.ret : m \in M}) = 1
            THEN [o |-> "match", ret |-> (CHOOSE m \in M : TRUE).ret]
       ELSE [o |-> "ambiguous", ret |-> ""]

=============================================================================
