------------------------------- MODULE Proofs -------------------------------
(***************************************************************************)
(* Unbounded facts about the value language, proved with TLAPS (SMT back   *)
(* end) about the very definitions of Values.tla that the model uses; TLC  *)
(* only checks them on finite grids (Functions1.tla).                      *)
(***************************************************************************)
EXTENDS ValuesCore, TLAPS

ASSUME NullNotInt == NULL \notin Int
ASSUME KleeneConsts == NULL \notin BOOLEAN /\ UNDEF \notin BOOLEAN /\ NULL # UNDEF

(* C02 / C08: two slice_head calls folded into one LIMIT / OFFSET keep exactly the rows the two calls keep one after the other *)
Kept(r, n, k) == k < r /\ r <= k + n          \* row r (1-based) survives slice_head(n, offset = k)

THEOREM LimitComposeCorrect ==
    \A lim, off, n, k \in Nat : \A r \in Nat :
        LET c == LimitCompose(lim, off, n, k) IN
        (Kept(r, lim, off) /\ Kept(r - off, n, k)) <=> Kept(r, c[1], c[2])
BY DEF Kept, LimitCompose, MinI, MaxI

THEOREM LimitComposeFirst ==       \* the first slice_head of a SELECT
    \A n, k \in Nat : LimitCompose(-1, 0, n, k) = <<n, k>>
BY DEF LimitCompose

(* C03: `//` truncates toward zero, `%` takes the sign of the dividend, and a = b * (a // b) + a % b *)
LEMMA DivNat == \A x \in Nat, y \in Nat \ {0} : /\ x \div y \in Nat
                                                /\ x = y * (x \div y) + (x % y)
                                                /\ x % y \in Nat /\ 0 <= x % y /\ x % y < y
OBVIOUS

THEOREM TruncDivMod ==
    \A a, b \in Int : b # 0 =>
        /\ a = b * TDivI(a, b) + TModI(a, b)
        /\ AbsI(TModI(a, b)) < AbsI(b)
        /\ (TModI(a, b) # 0 => ((TModI(a, b) < 0) <=> (a < 0)))
<1> TAKE a, b \in Int
<1> HAVE b # 0
<1> DEFINE x == AbsI(a)  y == AbsI(b)  q == x \div y  r == x % y
<1>1. x \in Nat /\ y \in Nat \ {0} BY DEF AbsI
<1>2. q \in Nat /\ r \in Nat /\ x = y * q + r /\ 0 <= r /\ r < y BY <1>1, DivNat DEF q, r
<1> HIDE DEF x, y, q, r
<1>3. CASE a >= 0 /\ b > 0
    <2>1. x = a /\ y = b BY <1>3 DEF x, y, AbsI
    <2>2. TDivI(a, b) = q BY <1>3 DEF TDivI, q, x, y
    <2>3. TModI(a, b) = r BY <2>1, <2>2, <1>2 DEF TModI
    <2> QED BY <2>1, <2>2, <2>3, <1>2, <1>3 DEF AbsI, TModI
<1>4. CASE a >= 0 /\ b < 0
    <2>1. x = a /\ y = -b BY <1>4 DEF x, y, AbsI
    <2>2. TDivI(a, b) = IF a < 0 THEN q ELSE -q BY <1>4 DEF TDivI, q, x, y
    <2>3. TDivI(a, b) = -q BY <2>2, <1>4
    <2>4. b * (-q) = y * q BY <2>1, <1>2
    <2>5. TModI(a, b) = r BY <2>1, <2>3, <2>4, <1>2 DEF TModI
    <2> QED BY <2>1, <2>3, <2>5, <1>2, <1>4 DEF AbsI, TModI
<1>5. CASE a < 0 /\ b > 0
    <2>1. x = -a /\ y = b BY <1>5 DEF x, y, AbsI
    <2>3. TDivI(a, b) = -q BY <1>5 DEF TDivI, q, x, y
    <2>4. b * (-q) = -(y * q) BY <2>1, <1>2
    <2>5. TModI(a, b) = -r BY <2>1, <2>3, <2>4, <1>2 DEF TModI
    <2> QED BY <2>1, <2>3, <2>5, <1>2, <1>5 DEF AbsI, TModI
<1>6. CASE a < 0 /\ b < 0
    <2>1. x = -a /\ y = -b BY <1>6 DEF x, y, AbsI
    <2>3. TDivI(a, b) = q BY <1>6 DEF TDivI, q, x, y
    <2>4. b * q = -(y * q) BY <2>1, <1>2
    <2>5. TModI(a, b) = -r BY <2>1, <2>3, <2>4, <1>2 DEF TModI
    <2> QED BY <2>1, <2>3, <2>5, <1>2, <1>6 DEF AbsI, TModI
<1> QED BY <1>3, <1>4, <1>5, <1>6

(* C02 / C05: the order used by arrange / arrange= on integers with nulls is a strict weak order for every marker combination, *)
(* so "sorted" determines the result up to the order within tie classes                                                        *)
V == Int \cup {NULL}
THEOREM OrderIsStrictWeak ==
    \A desc \in BOOLEAN, nl \in {"first", "last"} : \A a, b, c \in V :
        /\ ~Before1("int", a, a, desc, nl)
        /\ (Before1("int", a, b, desc, nl) /\ Before1("int", b, c, desc, nl)) => Before1("int", a, c, desc, nl)
        /\ (~Before1("int", a, b, desc, nl) /\ ~Before1("int", b, a, desc, nl) /\ ~Before1("int", b, c, desc, nl) /\ ~Before1("int", c, b, desc, nl))
              => (~Before1("int", a, c, desc, nl) /\ ~Before1("int", c, a, desc, nl))
BY NullNotInt DEF Before1, LtRaw, IsN, V

(* C03: Kleene connectives - conjunction is true exactly when both operands are true (filter(p, q) = filter(p & q)) *)
B3 == {TRUE, FALSE, NULL}
THEOREM AndTrueIffBoth == \A a, b \in B3 : IsTrue(And3(a, b)) <=> (IsTrue(a) /\ IsTrue(b))
<1> NULL \notin BOOLEAN /\ UNDEF \notin BOOLEAN /\ NULL # UNDEF BY KleeneConsts
<1> QED BY DEF B3, IsTrue, And3, IsU, IsN
=============================================================================
