------------------------------- MODULE Values -------------------------------
(***************************************************************************)
(* The value language of the specification.                                *)
(*                                                                         *)
(*  - NULL  : the SQL / Polars null.  A TLC model value, i.e. unequal to   *)
(*            every integer, boolean, string and record, and comparing it  *)
(*            with `=` never raises a TLC type error.                      *)
(*  - UNDEF : "the documentation defines no backend-independent result"    *)
(*            (division by zero, |v| beyond the bound, unspecified order). *)
(*            Every operator is strict in UNDEF; generation drops moves    *)
(*            whose result contains it (DESIGN.md section 4).              *)
(*  - Int   : TLC integers, kept inside +-Bound.                           *)
(*  - Bool  : TRUE / FALSE with three-valued (Kleene) connectives.         *)
(*  - Float : exact rationals [n |-> num, d |-> den], den > 0, gcd = 1.    *)
(*  - Str   : TLC strings (only equality is used on them here; the string  *)
(*            operators live in Strings.tla on code-point sequences).      *)
(***************************************************************************)
EXTENDS ValuesCore

---------------------------------------------------------------------------
(* exact rationals for Float *)
RECURSIVE GcdI(_, _)
GcdI(a, b) == IF b = 0 THEN a ELSE GcdI(b, a % b)

IsRat(v) == v \notin {NULL, UNDEF} /\ DOMAIN v = {"n", "d"}
Rat(n, d) == IF d = 0 THEN UNDEF
             ELSE LET s == IF d < 0 THEN -1 ELSE 1
                      g == GcdI(AbsI(n), AbsI(d))
                  IN [n |-> (s * n) \div g, d |-> (s * d) \div g]
RatOfInt(a) == [n |-> a, d |-> 1]
RatOk(r) == AbsI(r.n) <= Bound /\ r.d <= 10000
RatAddV(a, b) == IF IsU(a) \/ IsU(b) THEN UNDEF ELSE IF IsN(a) \/ IsN(b) THEN NULL
                 ELSE LET r == Rat(a.n * b.d + b.n * a.d, a.d * b.d) IN IF RatOk(r) THEN r ELSE UNDEF
RatSubV(a, b) == IF IsU(a) \/ IsU(b) THEN UNDEF ELSE IF IsN(a) \/ IsN(b) THEN NULL
                 ELSE LET r == Rat(a.n * b.d - b.n * a.d, a.d * b.d) IN IF RatOk(r) THEN r ELSE UNDEF
RatMulV(a, b) == IF IsU(a) \/ IsU(b) THEN UNDEF ELSE IF IsN(a) \/ IsN(b) THEN NULL
                 ELSE IF AbsI(a.n) > 1000 \/ AbsI(b.n) > 1000 \/ a.d > 100 \/ b.d > 100 THEN UNDEF
                 ELSE Rat(a.n * b.n, a.d * b.d)
RatDivV(a, b) == IF IsU(a) \/ IsU(b) THEN UNDEF ELSE IF IsN(a) \/ IsN(b) THEN NULL
                 ELSE IF b.n = 0 THEN UNDEF
                 ELSE IF AbsI(a.n) > 1000 \/ AbsI(b.n) > 1000 \/ a.d > 100 \/ b.d > 100 THEN UNDEF
                 ELSE Rat(a.n * b.d, a.d * b.n)
RECURSIVE RatPow(_, _)
RatPow(a, k) == IF k = 0 THEN RatOfInt(1) ELSE RatMulV(a, RatPow(a, k - 1))
(* Int / Int -> Float *)
TrueDivV(a, b) == IF IsU(a) \/ IsU(b) THEN UNDEF ELSE IF IsN(a) \/ IsN(b) THEN NULL
                  ELSE IF b = 0 THEN UNDEF ELSE Rat(a, b)
(* truncation toward zero, floor, ceil of a rational *)
RatTrunc(r) == TDivI(r.n, r.d)
RatFloor(r) == IF r.n >= 0 \/ r.n % r.d = 0 THEN TDivI(r.n, r.d) ELSE TDivI(r.n, r.d) - 1
RatCeil(r)  == IF r.n <= 0 \/ r.n % r.d = 0 THEN TDivI(r.n, r.d) ELSE TDivI(r.n, r.d) + 1

=============================================================================
