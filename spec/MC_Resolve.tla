----------------------------- MODULE MC_Resolve -----------------------------
(***************************************************************************)
(* Every (operator, argument-type tuple) is an initial state; the single   *)
(* action emits the outcome of the order-free definition, the invariants   *)
(* state C13's uniformity clauses on the catalogue itself.                 *)
(***************************************************************************)
EXTENDS Resolve, TLC, Json

CONSTANTS MaxArity, OpLo, OpHi,    \* operators OpLo..OpHi of the catalogue (sharding)
          OnlyOps                  \* if not empty: only the operators with these names (a deeper arity bound for a few operators)

VARIABLES oi, args, done
vars == <<oi, args, done>>

U == {Universe[i] : i \in DOMAIN Universe}
Arities(op) == UNION {IF op.sigs[j].va THEN (IF Len(op.sigs[j].ps) >= 2 THEN (Len(op.sigs[j].ps) - 1)..MaxArity ELSE {})
                      ELSE {Len(op.sigs[j].ps)} : j \in DOMAIN op.sigs}

Init == /\ oi \in {i \in OpLo..OpHi : OnlyOps = {} \/ Ops[i].name \in OnlyOps}
        /\ \E n \in {k \in Arities(Ops[oi]) : k <= MaxArity /\ k >= 0} : args \in [1..n -> U]
        /\ done = FALSE

Generic == {"Int", "Float", "Decimal(31,11)"}
SizedOf(g) == CASE g = "Int" -> {"Int8", "Int16", "Int32", "Int64", "UInt8", "UInt16", "UInt32", "UInt64"}
                [] g = "Float" -> {"Float32", "Float64"}
                [] OTHER -> {"Decimal(10,2)"}
Subst(a, i, t) == [a EXCEPT ![i] = t]
Plain(t) == BaseOf[t]

(* every sized integer / float / decimal type is accepted wherever the generic one is, with a result of the same family *)
SizedUniform ==
    LET b == Best(Ops[oi], args) IN
    b.o = "match" =>
        \A i \in DOMAIN args : Plain(args[i]) \in Generic =>
            \A s \in SizedOf(Plain(args[i])) :
                LET t  == IF IsConstT(args[i]) THEN MkConst(s) ELSE s
                    b2 == Best(Ops[oi], Subst(args, i, t))
                IN b2.o = "match" /\ (b2.ret \in DOMAIN Family /\ b.ret \in DOMAIN Family => Family[b2.ret] = Family[b.ret])

(* a constant argument is accepted wherever a column argument is *)
ConstAccepted ==
    LET b == Best(Ops[oi], args) IN
    b.o = "match" =>
        \A i \in DOMAIN args : ~IsConstT(args[i]) =>
            Best(Ops[oi], Subst(args, i, MkConst(args[i]))).o = "match"

(* the result is a constant (one value for every row; accepted by parameters declared constant) only for an element-wise     *)
(* operator applied to constants: a window or aggregate function of constants (row_number(), lit.shift(..)) varies by row / *)
(* depends on the rows of the table                                                                                        *)
ResultConst == Ops[oi].kind = "ELEMENT_WISE" /\ \A i \in DOMAIN args : IsConstT(args[i])

Emit == /\ ~done
        /\ LET b == Best(Ops[oi], args) IN
           PrintT(ToJson([op |-> Ops[oi].name, args |-> args, o |-> b.o, ret |-> b.ret, su |-> SizedUniform, ca |-> ConstAccepted, rc |-> ResultConst]))
        /\ done' = TRUE
        /\ UNCHANGED <<oi, args>>


(* the definition never leaves the outcome open: ambiguity is a defect of the catalogue *)
ResolutionUnique == Best(Ops[oi], args).o # "ambiguous"

Next == Emit

=============================================================================
