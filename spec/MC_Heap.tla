------------------------------- MODULE MC_Heap ------------------------------
(***************************************************************************)
(* Two-table behaviours: a left and a right pipeline, a join or union of   *)
(* their current ends, and verbs on the result (C06, C07, C09, C16).       *)
(***************************************************************************)
EXTENDS Pipeline, Sources

CONSTANT SrcPairs      \* Seq(<<left source index, right source index>>)
SrcHeapsPair == [k \in DOMAIN SrcPairs |-> <<SrcTables[SrcPairs[k][1]], SrcTables[SrcPairs[k][2]]>>]

IsJoined(t) == Cardinality(t.root) >= 2
LastWith(h, P(_)) == LET S == {i \in DOMAIN h : P(h[i])} IN IF S = {} THEN 0 ELSE Max(S)
LCur(h) == LastWith(h, LAMBDA t : t.name = h[1].name /\ ~IsJoined(t))
RCur(h) == LastWith(h, LAMBDA t : t.name = h[2].name /\ ~IsJoined(t))
JCur(h) == LastWith(h, LAMBDA t : IsJoined(t))
NameFree(t, n) == n \notin VisNames(t)
ColOf(t, n) == IF n \in VisNames(t) THEN <<ByName(t)[n]>> ELSE <<>>

(* one preparatory verb on a side *)
PreVerbs(t, i) ==
    LET iv == VisOfTy(t, "int")
        a  == ColOf(t, "a")
        b  == ColOf(t, "b")
    IN  MapS(a, LAMBDA c : MFilter(i, <<Fn2("ge", Col(c), LitI(2))>>))
        \o MapS(a, LAMBDA c : MMutate(i, <<KV("x", Fn2("add", Col(c), LitI(1)))>>))
        \o MapS(b, LAMBDA c : MMutate(i, <<KV("b", Fn2("mul", Col(c), LitI(2)))>>))          \* overwrite: hidden column named b
        \o MapS(b, LAMBDA c : MDrop(i, <<Col(c)>>))                                         \* hidden column
        \o MapS(a, LAMBDA c : MRename(i, <<[c |-> Col(c), n |-> "k"]>>))
        \o MapS(b, LAMBDA c : MRename(i, <<[c |-> Col(c), n |-> "c"]>>))                    \* may collide with the other side's c
        \o <<MAlias(i, "s", FALSE), MAlias(i, t.name, TRUE)>>
        \o MapS(a, LAMBDA c : MMutate(i, <<KV("z", Fn2("fill_null", Col(c), LitI(0)))>>))   \* null-absorbing computed column

JoinMoves(h, i, j) ==
    LET l == h[i]
        r == h[j]
        la == ColOf(l, "a") \o ColOf(l, "k")
        ra == ColOf(r, "a") \o ColOf(r, "k")
        lb == ColOf(l, "b") \o ColOf(l, "c")
        rb == ColOf(r, "b") \o ColOf(r, "c")
        ons == (IF "a" \in VisNames(l) /\ "a" \in VisNames(r) THEN <<<<OnStr("a")>>>> ELSE <<>>)
               \o (IF la # <<>> /\ ra # <<>> THEN <<<<Fn2("eq", Col(la[1]), Col(ra[1]))>>,
                                                    <<Fn2("eq", Fn2("add", Col(la[1]), LitI(0)), Col(ra[1]))>>>> ELSE <<>>)
               \o (IF la # <<>> /\ ra # <<>> /\ lb # <<>> /\ rb # <<>>
                   THEN <<<<Fn2("eq", Col(la[1]), Col(ra[1])), Fn2("eq", Col(lb[1]), Col(rb[1]))>>,
                          <<Fn2("and", Fn2("eq", Col(la[1]), Col(ra[1])), Fn2("ne", Col(lb[1]), Col(rb[1])))>>>> ELSE <<>>)
               \o (IF lb # <<>> /\ rb # <<>> THEN <<<<Fn2("lt", Col(lb[1]), Col(rb[1]))>>>> ELSE <<>>)
    IN  Flat(MapS(ons, LAMBDA on : <<MJoin(i, j, on, "inner", ""), MJoin(i, j, on, "left", ""), MJoin(i, j, on, "full", ""),
                                     MJoin(i, j, on, "left", "_r")>>))
        \o <<MCross(i, j, ""), MCross(i, j, "_s")>>

(* verbs on a join result: reachability probes through original references, and ordinary verbs *)
PostJoin(h, i, kn) ==
    LET t   == h[i]
        sc  == SetToSortSeq({c \in Scope(t) : c \in kn /\ t.ty[c] = "int"}, <)
        lsc == SelectSeq(sc, LAMBDA c : c \in Scope(h[LCur(h)]))
        rsc == SelectSeq(sc, LAMBDA c : c \in Scope(h[RCur(h)]))
        pr  == Take(lsc, 3) \o Take(rsc, 3)
        hid == SelectSeq(sc, LAMBDA c : c \notin VisSet(t))
    IN  MapS(pr \o Take(hid, 2), LAMBDA c : MMutate(i, <<KV("probe", Col(c))>>))
        \o MapS(Take(rsc, 1), LAMBDA c : MFilter(i, <<Fn1("is_null", Col(c))>>))
        \o MapS(Take(rsc, 1), LAMBDA c : MSelect(i, <<Col(c)>>))
        \o MapS(Take(lsc, 1), LAMBDA c : MArrange(i, <<Ord(Col(c), FALSE, "first")>>))

MovesJoin(h, kn) ==
    LET lc == LCur(h)
        rc == RCur(h)
        jc == JCur(h)
    IN  IF jc # 0 THEN PostJoin(h, jc, kn)
        ELSE (IF lc = 1 THEN PreVerbs(h[1], 1) ELSE <<>>)
             \o (IF rc = 2 THEN PreVerbs(h[2], 2) ELSE <<>>)
             \o JoinMoves(h, lc, rc)

---------------------------------------------------------------------------
PreUnion(t, i) ==
    LET a == ColOf(t, "a")
        b == ColOf(t, "b")
        g == ColOf(t, "g")
        p == ColOf(t, "p")
    IN  MapS(a, LAMBDA c : MFilter(i, <<Fn2("ge", Col(c), LitI(2))>>))
        \o MapS(g, LAMBDA c : MDrop(i, <<Col(c)>>))                                          \* hidden column / names differ
        \o (IF a # <<>> /\ b # <<>> /\ p # <<>> THEN <<MSelect(i, <<Col(b[1]), Col(p[1]), Col(a[1])>>)>> ELSE <<>>)
        \o MapS(b, LAMBDA c : MMutate(i, <<KV("b", Fn2("add", Col(c), LitI(0)))>>))          \* overwrite -> hidden + reorder
        \o MapS(b, LAMBDA c : MMutate(i, <<KV("b", Fn2("truediv", Col(c), LitI(2)))>>))      \* float vs int: common type
        \o MapS(p, LAMBDA c : MMutate(i, <<KV("a", Col(c))>>))                               \* bool vs int: no common type
        \o MapS(g, LAMBDA c : MGroupBy(i, <<Col(c)>>, FALSE))
        \o MapS(a, LAMBDA c : MRename(i, <<[c |-> Col(c), n |-> "q"]>>))

MovesUnion(h, kn) ==
    LET lc == LCur(h)
        rc == RCur(h)
        jc == JCur(h)
    IN  IF jc # 0
        THEN LET t == h[jc]
                 iv == VisOfTy(t, "int")
             IN  MapS(Take(iv, 1), LAMBDA c : MFilter(jc, <<Fn2("gt", Col(c), LitI(1))>>))
                 \o MapS(Take(iv, 1), LAMBDA c : MMutate(jc, <<KV("u", Fn2("add", Col(c), LitI(1)))>>))
                 \o MapS(Take(iv, 1), LAMBDA c : MArrange(jc, <<Ord(Col(c), FALSE, "first")>>))
                 \o <<MSummarize(jc, <<KV("n", Len0)>>)>>
                 \o (IF Cardinality(t.root) = 2 THEN <<MUnion(jc, rc, FALSE), MUnion(jc, rc, TRUE)>> ELSE <<>>)
                 \o MapS(Take(SetToSortSeq({c \in kn : c \in Scope(h[lc]) /\ h[lc].ty[c] = "int"}, <), 2),
                         LAMBDA c : MMutate(jc, <<KV("probe", Col(c))>>))
        ELSE (IF lc = 1 THEN PreUnion(h[1], 1) ELSE <<>>)
             \o (IF rc = 2 THEN PreUnion(h[2], 2) ELSE <<>>)
             \o <<MUnion(lc, rc, FALSE), MUnion(lc, rc, TRUE)>>

=============================================================================
