------------------------------- MODULE MC_Heap ------------------------------
(***************************************************************************)
(* Two-table behaviours: a left and a right pipeline, a join or union of   *)
(* their current ends, and verbs on the result (C06, C07, C09, C16).       *)
(***************************************************************************)
EXTENDS Pipeline, Sources

CONSTANT SrcPairs      \* Seq(<<left source index, right source index>>)
SrcHeapsPair == [k \in DOMAIN SrcPairs |-> <<SrcTables[SrcPairs[k][1]], SrcTables[SrcPairs[k][2]]>>]

IsJoined(t) == Cardinality(t.root) >= 2
Summarized2(t) == \E c \in VisSet(t) : t.fk[c] = "a"
LastWith(h, P(_)) == LET S == {i \in DOMAIN h : P(h[i])} IN IF S = {} THEN 0 ELSE Max(S)
LCur(h) == LastWith(h, LAMBDA t : t.name = h[1].name /\ ~IsJoined(t))
RCur(h) == LastWith(h, LAMBDA t : t.name = h[2].name /\ ~IsJoined(t))
JCur(h) == LastWith(h, LAMBDA t : IsJoined(t))
NameFree(t, n) == n \notin VisNames(t)
ColOf(t, n) == IF n \in VisNames(t) THEN <<ByName(t)[n]>> ELSE <<>>

(* one preparatory verb on a side *)
PreVerbs(t, i) ==
    LET iv == VisOfTy(t, "int")
        a  == ColOf(t, "a")
        b  == ColOf(t, "b")
    IN  MapS(a, LAMBDA c : MFilter(i, <<Fn2("ge", Col(c), LitI(2))>>))
        \o MapS(a, LAMBDA c : MMutate(i, <<KV("x", Fn2("add", Col(c), LitI(1)))>>))
        \o MapS(b, LAMBDA c : MMutate(i, <<KV("b", Fn2("mul", Col(c), LitI(2)))>>))          \* overwrite: hidden column named b
        \o MapS(b, LAMBDA c : MDrop(i, <<Col(c)>>))                                         \* hidden column
        \o MapS(a, LAMBDA c : MRename(i, <<[c |-> Col(c), n |-> "k"]>>))
        \o MapS(b, LAMBDA c : MRename(i, <<[c |-> Col(c), n |-> "c"]>>))                    \* may collide with the other side's c
        \o MapS(b, LAMBDA c : MRename(i, <<[c |-> Col(c), n |-> "c_r"]>>))                  \* collides with <other side's c> + user suffix "_r"
        \o <<MAlias(i, "s", FALSE), MAlias(i, t.name, TRUE)>>
        \o MapS(a, LAMBDA c : MMutate(i, <<KV("z", Fn2("fill_null", Col(c), LitI(0)))>>))   \* null-absorbing computed column

JoinMoves(h, i, j) ==
    LET l == h[i]
        r == h[j]
        la == ColOf(l, "a") \o ColOf(l, "k")
        ra == ColOf(r, "a") \o ColOf(r, "k")
        lb == ColOf(l, "b") \o ColOf(l, "c")
        rb == ColOf(r, "b") \o ColOf(r, "c")
        ons == (IF "a" \in VisNames(l) /\ "a" \in VisNames(r) THEN <<<<OnStr("a")>>>> ELSE <<>>)
               \o (IF la # <<>> /\ ra # <<>> THEN <<<<Fn2("eq", Col(la[1]), Col(ra[1]))>>,
                                                    <<Fn2("eq", Fn2("add", Col(la[1]), LitI(0)), Col(ra[1]))>>>> ELSE <<>>)
               \o (IF la # <<>> /\ ra # <<>> /\ lb # <<>> /\ rb # <<>>
                   THEN <<<<Fn2("eq", Col(la[1]), Col(ra[1])), Fn2("eq", Col(lb[1]), Col(rb[1]))>>,
                          <<Fn2("and", Fn2("eq", Col(la[1]), Col(ra[1])), Fn2("ne", Col(lb[1]), Col(rb[1])))>>>> ELSE <<>>)
               \o (IF lb # <<>> /\ rb # <<>> THEN <<<<Fn2("lt", Col(lb[1]), Col(rb[1]))>>>> ELSE <<>>)
    IN  Flat(MapS(ons, LAMBDA on : <<MJoin(i, j, on, "inner", ""), MJoin(i, j, on, "left", ""), MJoin(i, j, on, "full", ""),
                                     MJoin(i, j, on, "left", "_r")>>))
        \o <<MCross(i, j, ""), MCross(i, j, "_s")>>

(* verbs on a join result: reachability probes through original references, and ordinary verbs *)
PostJoin(h, i, kn) ==
    LET t   == h[i]
        sc  == SetToSortSeq({c \in Scope(t) : c \in kn /\ t.ty[c] = "int"}, <)
        lsc == SelectSeq(sc, LAMBDA c : c \in Scope(h[LCur(h)]))
        rsc == SelectSeq(sc, LAMBDA c : c \in Scope(h[RCur(h)]))
        pr  == Take(lsc, 3) \o Take(rsc, 3)
        hid == SelectSeq(sc, LAMBDA c : c \notin VisSet(t))
    IN  MapS(pr \o Take(hid, 2), LAMBDA c : MMutate(i, <<KV("probe", Col(c))>>))
        \o MapS(Take(rsc, 1), LAMBDA c : MFilter(i, <<Fn1("is_null", Col(c))>>))
        \o MapS(Take(rsc, 1), LAMBDA c : MSelect(i, <<Col(c)>>))
        \o MapS(Take(lsc, 1), LAMBDA c : MArrange(i, <<Ord(Col(c), FALSE, "first")>>))

MovesJoin(h, kn) ==
    LET lc == LCur(h)
        rc == RCur(h)
        jc == JCur(h)
    IN  IF jc # 0 THEN PostJoin(h, jc, kn)
        ELSE (IF lc = 1 THEN PreVerbs(h[1], 1) ELSE <<>>)
             \o (IF rc = 2 THEN PreVerbs(h[2], 2) ELSE <<>>)
             \o JoinMoves(h, lc, rc)

(* hidden / hidden name collisions: both sides hide (drop or overwrite) a column of the same name, join, probe *)
MovesJoinH(h, kn) ==
    LET lc == LCur(h)
        rc == RCur(h)
        jc == JCur(h)
        pre(t, i) == LET b == ColOf(t, "b") IN
                     MapS(b, LAMBDA c : MDrop(i, <<Col(c)>>)) \o MapS(b, LAMBDA c : MMutate(i, <<KV("b", Fn2("mul", Col(c), LitI(2)))>>))
        jm(i, j) == LET la == ColOf(h[i], "a") ra == ColOf(h[j], "a") IN
                    IF la # <<>> /\ ra # <<>>
                    THEN <<MJoin(i, j, <<Fn2("eq", Col(la[1]), Col(ra[1]))>>, "inner", ""),
                           MJoin(i, j, <<Fn2("eq", Col(la[1]), Col(ra[1]))>>, "left", "_r")>>
                    ELSE <<>>
    IN  IF jc # 0 THEN (IF "probe" \in VisNames(h[jc]) THEN <<>> ELSE PostJoin(h, jc, kn))
        ELSE (IF lc = 1 THEN pre(h[1], 1) ELSE <<>>) \o (IF rc = 2 THEN pre(h[2], 2) ELSE <<>>) \o (IF lc # 1 /\ rc # 2 THEN jm(lc, rc) ELSE <<>>)

(* a column that is not null for null inputs (or one derived from it) on a side that an outer join pads, with a plain alias(), *)
(* an alias(keep_col_refs=True) or nothing between its definition and the join (the null-strictness rule must follow the       *)
(* column through re-rooting)                                                                                                  *)
MovesJoinZ(h, kn) ==
    LET lc == LCur(h)
        rc == RCur(h)
        jc == JCur(h)
        pre(t, i) == LET a == ColOf(t, "a") b == ColOf(t, "b") z == ColOf(t, "z") IN
                     (IF NameFree(t, "z") THEN MapS(b, LAMBDA c : MMutate(i, <<KV("z", Fn2("fill_null", Col(c), LitI(0)))>>))
                                               \* not null for null inputs below an operator that has a literal operand, too
                                               \o MapS(b, LAMBDA c : MMutate(i, <<KV("z", Fn2("add", Fn2("fill_null", Col(c), LitI(0)), LitI(1)))>>))
                                               \o MapS(b, LAMBDA c : MMutate(i, <<KV("z", Fn2("add", Col(c), LitI(1)))>>))
                                               \o MapS(b, LAMBDA c : MMutate(i, <<KV("z", Case1D(Fn2("gt", Col(c), LitI(0)), LitI(1), LitI(0)))>>)) ELSE <<>>)
                     \o (IF NameFree(t, "y") THEN MapS(z, LAMBDA c : MMutate(i, <<KV("y", Fn2("add", CN("z"), LitI(1)))>>)) ELSE <<>>)
                     \o (IF z # <<>> THEN <<MAlias(i, t.name, FALSE), MAlias(i, t.name, TRUE)>> ELSE <<>>)
                     \* the same kinds of column, hidden by a select before the join and read through the original reference after it
                     \o (IF NameFree(t, "z") /\ ~(\E c \in Scope(t) : t.nm[c] = "z")
                         THEN MapS(b, LAMBDA c : MMutate(i, <<KV("z", Agg("sum", Col(c)))>>)) \o <<MMutate(i, <<KV("z", LitI(1))>>)>> ELSE <<>>)
                     \o (IF z # <<>> /\ a # <<>> THEN <<MSelect(i, <<Col(a[1])>>)>> ELSE <<>>)
        jm(i, j) == LET la == ColOf(h[i], "a") ra == ColOf(h[j], "a") IN
                    IF la # <<>> /\ ra # <<>>
                    THEN <<MJoin(i, j, <<Fn2("eq", Col(la[1]), Col(ra[1]))>>, "left", "_r"),
                           MJoin(i, j, <<Fn2("eq", Col(la[1]), Col(ra[1]))>>, "full", "_r")>>
                         \o <<MJoin(i, j, <<Fn2("eq", Col(la[1]), Col(ra[1]))>>, "inner", "_r")>>
                    ELSE <<>>
        hid(t) == SetToSortSeq({c \in Scope(t) : c \in kn /\ c \notin VisSet(t) /\ t.ty[c] = "int" /\ c \notin Scope(h[1]) /\ c \notin Scope(h[2])}, <)
        n == Len(h)
        (* second stage: the join result, re-rooted by a plain alias(), becomes the padded side of an outer join with the left source *)
        stage2 == IF jc = n /\ VisNames(h[n]) \cap {"z", "z_r"} # {} THEN <<MAlias(n, "j", FALSE)>>
                  ELSE IF jc # n /\ h[n].name = "j" /\ ~IsJoined(h[n]) /\ "a" \in VisNames(h[n]) /\ "a" \in VisNames(h[1])
                       THEN <<MJoin(1, n, <<Fn2("eq", Col(ByName(h[1])["a"]), Fn2("add", Col(ByName(h[n])["a"]), LitI(1)))>>, "left", "_q")>>
                       ELSE <<>>
    IN  IF jc # 0 THEN (IF "probe" \in VisNames(h[jc]) THEN <<>> ELSE MapS(hid(h[jc]), LAMBDA c : MMutate(jc, <<KV("probe", Col(c))>>))) \o stage2
        ELSE pre(h[rc], rc) \o (IF lc = 1 THEN <<MMutate(1, <<KV("zl", Fn1("is_null", Col(ColOf(h[1], "b")[1])))>>)>> ELSE <<>>) \o jm(lc, rc)

(* trimmed alphabet: an ordered / sliced / filtered / grouped-and-summarized side, then a join (SQL subquery rules for joins) *)
MovesJoinS(h, kn) ==
    LET lc == LCur(h)
        rc == RCur(h)
        jc == JCur(h)
        nL == Cardinality({q \in DOMAIN h : h[q].name = h[1].name /\ ~IsJoined(h[q])})
        nR == Cardinality({q \in DOMAIN h : h[q].name = h[2].name /\ ~IsJoined(h[q])})
        pre(t, i) == LET a == ColOf(t, "a") b == ColOf(t, "b") IN
                     (IF a # <<>> /\ b # <<>> THEN <<MArrange(i, <<Ord(Col(b[1]), FALSE, "first"), Ord(Col(a[1]), TRUE, "last")>>)>> ELSE <<>>)
                     \o <<MSlice(i, 2, 0), MSlice(i, 2, 1)>>
                     \o MapS(b, LAMBDA c : MFilter(i, <<Fn2("gt", Col(c), LitI(0))>>))
                     \o MapS(b, LAMBDA c : MMutate(i, <<KV("w", Agg("sum", Col(c)))>>))
                     \o MapS(b, LAMBDA c : MMutate(i, <<KV("k1", LitI(1))>>))
                     \o (IF a # <<>> /\ b # <<>> THEN <<MSummarize(i, <<KV("b", Agg("max", Col(b[1])))>>)>> ELSE <<>>)
                     \o (IF a # <<>> /\ t.part = <<>> /\ ~Summarized2(t) THEN <<MGroupBy(i, <<Col(a[1])>>, FALSE)>> ELSE <<>>)
        jm(i, j) == LET la == ColOf(h[i], "a") ra == ColOf(h[j], "a") IN
                    IF la # <<>> /\ ra # <<>>
                    THEN <<MJoin(i, j, <<Fn2("eq", Col(la[1]), Col(ra[1]))>>, "inner", ""),
                           MJoin(i, j, <<Fn2("eq", Col(la[1]), Col(ra[1]))>>, "left", ""),
                           MJoin(i, j, <<Fn2("eq", Col(la[1]), Col(ra[1]))>>, "full", "")>>
                    ELSE <<>>
    IN  IF jc # 0 THEN <<>>
        ELSE (IF nL <= 2 THEN pre(h[lc], lc) ELSE <<>>) \o (IF nR <= 2 THEN pre(h[rc], rc) ELSE <<>>) \o jm(lc, rc)

---------------------------------------------------------------------------
PreUnion(t, i) ==
    LET a == ColOf(t, "a")
        b == ColOf(t, "b")
        g == ColOf(t, "g")
        p == ColOf(t, "p")
    IN  MapS(a, LAMBDA c : MFilter(i, <<Fn2("ge", Col(c), LitI(2))>>))
        \o MapS(g, LAMBDA c : MDrop(i, <<Col(c)>>))                                          \* hidden column / names differ
        \o (IF a # <<>> /\ b # <<>> /\ p # <<>> THEN <<MSelect(i, <<Col(b[1]), Col(p[1]), Col(a[1])>>)>> ELSE <<>>)
        \o MapS(b, LAMBDA c : MMutate(i, <<KV("b", Fn2("add", Col(c), LitI(0)))>>))          \* overwrite -> hidden + reorder
        \o MapS(b, LAMBDA c : MMutate(i, <<KV("b", Fn2("truediv", Col(c), LitI(2)))>>))      \* float vs int: common type
        \o MapS(p, LAMBDA c : MMutate(i, <<KV("a", Col(c))>>))                               \* bool vs int: no common type
        \o MapS(g, LAMBDA c : MGroupBy(i, <<Col(c)>>, FALSE))
        \o MapS(a, LAMBDA c : MRename(i, <<[c |-> Col(c), n |-> "q"]>>))

MovesUnion(h, kn) ==
    LET lc == LCur(h)
        rc == RCur(h)
        jc == JCur(h)
    IN  IF jc # 0
        THEN LET t == h[jc]
                 iv == VisOfTy(t, "int")
             IN  MapS(Take(iv, 1), LAMBDA c : MFilter(jc, <<Fn2("gt", Col(c), LitI(1))>>))
                 \o MapS(Take(iv, 1), LAMBDA c : MMutate(jc, <<KV("u", Fn2("add", Col(c), LitI(1)))>>))
                 \o MapS(Take(iv, 1), LAMBDA c : MArrange(jc, <<Ord(Col(c), FALSE, "first")>>))
                 \o <<MSummarize(jc, <<KV("n", Len0)>>)>>
                 \o (IF Cardinality(t.root) = 2 THEN <<MUnion(jc, rc, FALSE), MUnion(jc, rc, TRUE)>> ELSE <<>>)
                 \* a union result descends from BOTH operands: joining it with one of them is a self-join without alias (ValueError)
                 \o (IF Cardinality(t.root) = 2 /\ "a" \in VisNames(t) /\ "a" \in VisNames(h[rc]) /\ t.part = <<>> /\ h[rc].part = <<>>
                     THEN <<MJoin(jc, rc, <<Fn2("eq", Col(ByName(t)["a"]), Col(ByName(h[rc])["a"]))>>, "inner", "_r"),
                            MJoin(jc, lc, <<Fn2("eq", Col(ByName(t)["a"]), Col(ByName(t)["a"]))>>, "left", "_r")>> ELSE <<>>)
                 \o MapS(Take(SetToSortSeq({c \in kn : c \in Scope(h[lc]) /\ h[lc].ty[c] = "int"}, <), 2),
                         LAMBDA c : MMutate(jc, <<KV("probe", Col(c))>>))
                 \* the same reference inside an operator (the operator node must take its type from the column as the union sees it)
                 \o MapS(Take(SetToSortSeq({c \in kn : c \in Scope(h[lc]) /\ h[lc].ty[c] = "int"}, <), 2),
                         LAMBDA c : MMutate(jc, <<KV("probe", Fn2("mul", Col(c), LitI(2)))>>))
                 \* the united column has ONE type for all its rows (its text form shows it: '2.0', not '2', for rows of an integer operand)
                 \o MapS(SelectSeq(ColOf(t, "b"), LAMBDA c : t.ty[c] = "float"), LAMBDA c : MMutate(jc, <<KV("probe", Cast(Col(c), "str"))>>))
                 \* an integer-only operator through the old reference: type-checked against the column as the union sees it
                 \o MapS(Take(SetToSortSeq({c \in kn : c \in Scope(h[lc]) /\ h[lc].ty[c] = "int"}, <), 2),
                         LAMBDA c : MMutate(jc, <<KV("probe", Fn2("floordiv", Col(c), LitI(2)))>>))
                 \* ... and inside a case expression / an aggregate built from the old references
                 \o MapS(Take(SetToSortSeq({c \in kn : c \in Scope(h[lc]) /\ h[lc].ty[c] = "int"}, <), 2),
                         LAMBDA c : MMutate(jc, <<KV("probe", Case1D(Fn2("gt", Col(c), LitI(0)), Col(c), LitI(0)))>>))
                 \o MapS(Take(SetToSortSeq({c \in kn : c \in Scope(h[lc]) /\ h[lc].ty[c] = "int"}, <), 1),
                         LAMBDA c : MSummarize(jc, <<KV("probe", Agg("max", Case1D(Fn2("gt", Col(c), LitI(0)), Col(c), LitI(0))))>>))
        ELSE (IF lc = 1 THEN PreUnion(h[1], 1) ELSE <<>>)
             \o (IF rc = 2 THEN PreUnion(h[2], 2) ELSE <<>>)
             \o <<MUnion(lc, rc, FALSE), MUnion(lc, rc, TRUE)>>

(* hidden and visible columns of ONE name on the sides of a union: a column is hidden (drop) and another one renamed onto its *)
(* name, so that the hidden one is registered before or after the visible one; the other side drops the surplus column        *)
MovesUnionH(h, kn) ==
    LET lc == LCur(h)
        rc == RCur(h)
        jc == JCur(h)
        pre(t, i) == LET a == ColOf(t, "a") g == ColOf(t, "g") b == ColOf(t, "b") IN
                     (IF Len(t.vis) >= 3 THEN MapS(a, LAMBDA c : MDrop(i, <<Col(c)>>)) \o MapS(g, LAMBDA c : MDrop(i, <<Col(c)>>)) ELSE <<>>)
                     \o (IF NameFree(t, "a") /\ g # <<>> THEN <<MRename(i, <<[c |-> Col(g[1]), n |-> "a"]>>)>> ELSE <<>>)
                     \o (IF NameFree(t, "g") /\ a # <<>> THEN <<MRename(i, <<[c |-> Col(a[1]), n |-> "g"]>>)>> ELSE <<>>)
    IN  IF jc # 0
        THEN \* a new column under the name of a column that an operand had hidden
             LET t == h[jc] iv == VisOfTy(t, "int") IN
             IF iv = <<>> \/ "probe" \in VisNames(t) THEN <<>>
             ELSE Flat(MapS(<<"a", "g">>, LAMBDA n : IF NameFree(t, n) THEN <<MMutate(jc, <<KV(n, Fn2("add", Col(iv[1]), LitI(1)))>>)>> ELSE <<>>))
        ELSE pre(h[lc], lc) \o pre(h[rc], rc)
             \o <<MUnion(lc, rc, FALSE), MUnion(lc, rc, TRUE)>>

(* the right operand of a union is itself a self-join (of the right table with its alias), projected back to the common columns *)
MovesUnionJ(h, kn) ==
    LET n == Len(h) IN
    CASE n = 2 -> <<MAlias(2, "z", FALSE)>>
      [] n = 3 -> LET a2 == ColOf(h[2], "a") a3 == ColOf(h[3], "a") IN
                  IF a2 # <<>> /\ a3 # <<>> THEN <<MJoin(2, 3, <<Fn2("eq", Col(a2[1]), Col(a3[1]))>>, "inner", "_z"),
                                                     MJoin(2, 3, <<Fn2("eq", Col(a2[1]), Col(a3[1]))>>, "left", "_z")>> ELSE <<>>
      [] n = 4 -> <<MSelect(4, [i \in DOMAIN h[2].vis |-> Col(h[2].vis[i])])>>
      [] n = 5 -> <<MUnion(1, 5, FALSE), MUnion(1, 5, TRUE), MUnion(5, 1, FALSE)>>
      [] OTHER -> <<>>

(* an ordered / sliced / aliased operand of a union (the subquery rules of union; the alias() may sit on either side) *)
MovesUnionS(h, kn) ==
    LET lc == LCur(h)
        rc == RCur(h)
        jc == JCur(h)
        pre(t, i) == LET a == ColOf(t, "a") b == ColOf(t, "b") IN
                     (IF a # <<>> /\ b # <<>> THEN <<MArrange(i, <<Ord(Col(b[1]), FALSE, "first"), Ord(Col(a[1]), TRUE, "last")>>)>> ELSE <<>>)
                     \o <<MSlice(i, 2, 0), MSlice(i, 0, 0), MAlias(i, t.name, TRUE), MAlias(i, t.name, FALSE)>>
                     \o MapS(b, LAMBDA c : MFilter(i, <<Fn2("gt", Col(c), LitI(0))>>))
        n == Len(h)
    IN  IF jc # 0
        THEN \* on the union result: a slice, then a verb that needs a subquery (an alias() inside an OPERAND is no place for its marker)
             LET u == Min({q \in DOMAIN h : IsJoined(h[q])}) IN      \* the union itself; later entries derive from it
             (IF n = u THEN <<MSlice(n, 3, 0)>> ELSE <<>>)
             \o (IF n = u + 1 /\ "b" \in VisNames(h[n]) THEN <<MFilter(n, <<Fn2("gt", CN("b"), LitI(0))>>)>> ELSE <<>>)
        ELSE pre(h[lc], lc) \o pre(h[rc], rc) \o <<MUnion(lc, rc, FALSE), MUnion(lc, rc, TRUE)>>

(* a literal column on both sides (a different literal per side): after the union the column is no constant any more - it is *)
(* grouped by / filtered on / counted                                                                                           *)
MovesUnionC(h, kn) ==
    LET lc == LCur(h)
        rc == RCur(h)
        jc == JCur(h)
        lit(t, i, v) == IF NameFree(t, "k1") THEN <<MMutate(i, <<KV("k1", LitI(v))>>)>> ELSE <<>>
    IN  IF jc # 0
        THEN LET t == h[jc] k == ColOf(t, "k1") n == ColOf(t, "n") IN
             (IF t.part = <<>> /\ n = <<>> THEN MapS(k, LAMBDA c : MGroupBy(jc, <<Col(c)>>, FALSE)) ELSE <<>>)
             \o (IF n = <<>> THEN <<MSummarize(jc, <<KV("n", Len0)>>)>> ELSE <<>>)
             \o (IF n = <<>> /\ t.part = <<>> THEN MapS(k, LAMBDA c : MFilter(jc, <<Fn2("eq", Col(c), LitI(2))>>)) ELSE <<>>)
             \o (IF n = <<>> /\ t.part = <<>> /\ NameFree(t, "w") THEN MapS(k, LAMBDA c : MMutate(jc, <<KV("w", AggP("count", Col(c), <<Col(c)>>))>>)) ELSE <<>>)
        ELSE lit(h[lc], lc, 1) \o lit(h[rc], rc, 2)
             \o (IF ~NameFree(h[lc], "k1") /\ ~NameFree(h[rc], "k1") THEN <<MUnion(lc, rc, FALSE), MUnion(lc, rc, TRUE)>> ELSE <<>>)

---------------------------------------------------------------------------
(* C09: a reference is created (kn = every identity that was ever visible), *)
(* a history of verbs follows, then the reference is used.                  *)
IntIds(t, S) == SetToSortSeq({c \in S : c \in Scope(t) /\ t.ty[c] = "int"}, <)

RefHistory(t, i) ==
    LET a == ColOf(t, "a")
        b == ColOf(t, "b")
        g == ColOf(t, "g")
    IN  (IF a # <<>> /\ b # <<>> THEN <<MRename(i, <<[c |-> Col(a[1]), n |-> "b"], [c |-> Col(b[1]), n |-> "a"]>>)>> ELSE <<>>)  \* swap
        \o (IF Len(t.vis) >= 2 THEN MapS(a, LAMBDA c : MDrop(i, <<Col(c)>>)) ELSE <<>>)
        \o MapS(a, LAMBDA c : MMutate(i, <<KV("a", Fn2("add", Col(c), LitI(10)))>>))       \* overwrite
        \o (IF NameFree(t, "a") /\ b # <<>> THEN <<MMutate(i, <<KV("a", Fn2("mul", Col(b[1]), LitI(-1)))>>)>> ELSE <<>>)  \* re-create the old name
        \o (IF NameFree(t, "a") /\ g # <<>> THEN <<MRename(i, <<[c |-> Col(g[1]), n |-> "a"]>>)>> ELSE <<>>)   \* rename onto a hidden column's name
        \o MapS(b, LAMBDA c : MArrange(i, <<Ord(Col(c), TRUE, "last")>>))
        \o MapS(b, LAMBDA c : MFilter(i, <<Fn2("gt", Col(c), LitI(0))>>))
        \o <<MAlias(i, t.name, TRUE), MAlias(i, "s", FALSE), MCollect(i, TRUE), MCollect(i, FALSE)>>
        \o (IF g # <<>> THEN <<MGroupBy(i, <<Col(g[1])>>, FALSE)>> ELSE <<>>)
        \o (IF t.part # <<>> /\ b # <<>> THEN <<MSummarize(i, <<KV("s", Agg("sum", Col(b[1])))>>)>> ELSE <<>>)

RefProbes(h, i, kn) ==
    LET t == h[i]
        ids == SetToSortSeq({c \in kn : c < 100 \/ c \in Scope(t)}, <)
        allInt == SelectSeq(ids, LAMBDA c : \E q \in DOMAIN h : c \in Scope(h[q]) /\ h[q].ty[c] = "int")
    IN  MapS(Take(allInt, 5), LAMBDA c : MMutate(i, <<KV("probe", Col(c))>>))
        \o MapS(Take(allInt, 4), LAMBDA c : MGetName(i, c))
        \o <<MMutate(i, <<KV("probe", CN("a"))>>), MMutate(i, <<KV("probe", CN("b"))>>)>>
        \o MapS(Take(allInt, 2), LAMBDA c : MFilter(i, <<Fn1("is_not_null", Col(c))>>))
        \o (IF t.part = <<>> THEN MapS(Take(allInt, 2), LAMBDA c : MSelect(i, <<Col(c)>>)) ELSE <<>>)
        \* two different columns, one given by a reference whose ORIGINAL name the other column carries now (e.g. after a swap)
        \o (IF t.part = <<>> THEN MapS(SelectSeq(Take(allInt, 3), LAMBDA c : c \in VisSet(t) /\ c \in Scope(h[1]) /\ h[1].nm[c] \in VisNames(t)
                                                                             /\ ByName(t)[h[1].nm[c]] # c),
                                      LAMBDA c : MSelect(i, <<Col(c), CN(h[1].nm[c])>>)) ELSE <<>>)
        \* drop through a reference: removes THAT column (nothing, if it is hidden - never the column that carries its old name now)
        \o (IF t.part = <<>> THEN MapS(SelectSeq(Take(allInt, 3), LAMBDA c : Len(t.vis) >= 2 \/ c \notin VisSet(t)), LAMBDA c : MDrop(i, <<Col(c)>>)) ELSE <<>>)

MovesRef(h, kn) ==
    LET i == IF Len(h) = 2 THEN 1 ELSE Len(h)
        lastIsProbe == i > 1 /\ "probe" \in VisNames(h[i])
    IN  IF lastIsProbe THEN <<>>
        ELSE RefHistory(h[i], i) \o RefProbes(h, i, kn)
             \o (IF Len(h) >= 2 /\ h[2].name = "t2" /\ ~IsJoined(h[i]) /\ h[i].part = <<>>
                    /\ "a" \in VisNames(h[i]) /\ h[i].root \cap h[2].root = {}
                 THEN <<MJoin(i, 2, <<Fn2("eq", Col(ByName(h[i])["a"]), Col(21))>>, "left", "")>> ELSE <<>>)
             \* a join condition through a reference whose column the table no longer has in scope (aggregated away, cut off by a plain
             \* alias / collect): ValueError, although the source table is still an ancestor
             \o (IF Len(h) >= 2 /\ h[2].name = "t2" /\ ~IsJoined(h[i]) /\ h[i].part = <<>> /\ h[i].root \cap h[2].root = {}
                 THEN MapS(Take(SetToSortSeq({c \in kn : c < 100 /\ c \notin Scope(h[i]) /\ c \in Scope(h[1]) /\ h[1].ty[c] = "int"}, <), 1),
                           LAMBDA c : MJoin(i, 2, <<Fn2("eq", Col(c), Col(21))>>, "inner", "")) ELSE <<>>)

---------------------------------------------------------------------------
(* C16: re-rooting verbs, self-joins of a derived table with its alias, old / new references *)
MovesReroot(h, kn) ==
    LET i == Len(h)
        t == h[i]
        a == ColOf(t, "a")
        b == ColOf(t, "b")
        g == ColOf(t, "g")
        prev == IF i >= 2 THEN i - 1 ELSE 0
        selfOn == IF prev # 0 /\ a # <<>> /\ "a" \in VisNames(h[prev]) /\ h[prev].root \cap t.root = {}
                  THEN <<MJoin(prev, i, <<Fn2("eq", Col(ByName(h[prev])["a"]), Col(a[1]))>>, "inner", ""),
                         MJoin(prev, i, <<Fn2("eq", Col(ByName(h[prev])["a"]), Col(a[1]))>>, "left", "_r")>> ELSE <<>>
    IN  IF IsJoined(t) \/ "probe" \in VisNames(t) THEN RefProbes(h, i, kn)
        ELSE <<MAlias(i, "s", FALSE), MAlias(i, t.name, TRUE), MCollect(i, TRUE), MCollect(i, FALSE)>>
             \o selfOn
             \o (IF prev # 0 THEN <<MTransfer(i, prev), MTransfer(prev, i)>> ELSE <<>>)
             \* a union of a table with a table derived from it (its own references must keep working afterwards)
             \o (IF prev # 0 /\ h[prev].part = <<>> /\ t.part = <<>> /\ VisNames(h[prev]) = VisNames(t) /\ "u" \notin VisNames(t)
                 THEN <<MUnion(prev, i, FALSE), MUnion(i, prev, TRUE)>> ELSE <<>>)
             \o MapS(b, LAMBDA c : MMutate(i, <<KV("b", Fn2("add", Col(c), LitI(1)))>>))       \* hidden column before re-rooting
             \o MapS(a, LAMBDA c : MRename(i, <<[c |-> Col(c), n |-> "k"]>>))
             \o (IF Len(t.vis) >= 2 THEN MapS(b, LAMBDA c : MDrop(i, <<Col(c)>>)) ELSE <<>>)
             \* a reordering select before re-rooting: the metadata of the re-rooted table follows the selection, not the definition order
             \o (IF Len(t.vis) >= 3 /\ t.part = <<>> THEN <<MSelect(i, <<Col(t.vis[Len(t.vis)]), Col(t.vis[1]), Col(t.vis[2])>>)>> ELSE <<>>)
             \o MapS(g, LAMBDA c : MGroupBy(i, <<Col(c)>>, FALSE))
             \o MapS(b, LAMBDA c : MFilter(i, <<Fn2("gt", Col(c), LitI(0))>>))
             \o (IF t.part # <<>> /\ b # <<>> THEN <<MSummarize(i, <<KV("s", Agg("sum", Col(b[1])))>>),
                                                     MMutate(i, <<KV("w", Agg("sum", Col(b[1])))>>)>> ELSE <<>>)
             \o RefProbes(h, i, kn)

(* the aggregate of a table, re-rooted with a plain alias(), joined back onto the table itself; then the origin's own references *)
(* (also those the aggregate no longer has in scope) must still denote the origin's columns                                     *)
MovesRerootAgg(h, kn) ==
    LET i == Len(h)
        t == h[i]
        o == h[1]
        b == ColOf(t, "b")
        g == ColOf(t, "g")
        s == ColOf(t, "s")
        og == ColOf(o, "g")
        ob == ColOf(o, "b")
        aliased == i > 1 /\ t.root \cap o.root = {}
    IN  IF IsJoined(t) THEN (IF "probe" \in VisNames(t) THEN <<>> ELSE RefProbes(h, i, kn))
        ELSE IF aliased
             THEN (IF g # <<>> /\ og # <<>> THEN <<MJoin(1, i, <<Fn2("eq", Col(og[1]), Col(g[1]))>>, "left", ""),
                                                     MJoin(1, i, <<Fn2("eq", Col(og[1]), Col(g[1]))>>, "inner", "_r")>> ELSE <<>>)
                  \o (IF g = <<>> /\ s # <<>> /\ ob # <<>> THEN <<MJoin(1, i, <<Fn2("le", Col(ob[1]), Col(s[1]))>>, "inner", "")>> ELSE <<>>)
        ELSE IF Summarized2(t) THEN <<MAlias(i, "s", FALSE)>>
        ELSE IF t.part # <<>> THEN MapS(b, LAMBDA c : MSummarize(i, <<KV("s", Agg("max", Col(c)))>>))
        ELSE MapS(g, LAMBDA c : MGroupBy(i, <<Col(c)>>, FALSE)) \o MapS(b, LAMBDA c : MSummarize(i, <<KV("s", Agg("max", Col(c)))>>))
             \o MapS(b, LAMBDA c : MFilter(i, <<Fn2("gt", Col(c), LitI(0))>>))

(* the grouping state must survive collect() as the same COLUMNS, also when a grouping column was renamed (or its old name *)
(* was taken over by another column) between group_by and collect                                                         *)
MovesCollectG(h, kn) ==
    LET i == Len(h)
        t == h[i]
        pset == {t.part[q] : q \in DOMAIN t.part}
        iv == SelectSeq(VisOfTy(t, "int"), LAMBDA c : c \notin pset)
        gv == SelectSeq(t.vis, LAMBDA c : c \in pset)
    IN  IF "w" \in VisNames(t) \/ Summarized2(t) \/ iv = <<>> THEN <<>>
        ELSE IF t.part = <<>> THEN MapS(ColOf(t, "g"), LAMBDA c : MGroupBy(i, <<Col(c)>>, FALSE))
                                    \o (IF ColOf(t, "g") # <<>> /\ ColOf(t, "p") # <<>> THEN <<MGroupBy(i, <<Col(ColOf(t, "p")[1]), Col(ColOf(t, "g")[1])>>, FALSE)>> ELSE <<>>)
        ELSE (IF gv # <<>> /\ NameFree(t, "k") THEN <<MRename(i, <<[c |-> Col(gv[1]), n |-> "k"]>>),
                                                      MRename(i, <<[c |-> Col(gv[1]), n |-> t.nm[iv[1]]], [c |-> Col(iv[1]), n |-> t.nm[gv[1]]]>>)>> ELSE <<>>)
             \o <<MCollect(i, TRUE), MCollect(i, FALSE)>>
             \* a hidden grouping column and a plain alias(): the re-rooted table is still grouped by (the copy of) that column
             \o (IF gv # <<>> /\ Len(t.vis) >= 3 THEN <<MDrop(i, <<Col(gv[1])>>)>> ELSE <<>>)
             \o (IF gv = <<>> THEN <<MAlias(i, "s", FALSE)>> ELSE <<>>)
             \* (summarize by a HIDDEN grouping column has no documented meaning - known finding F14 - so only the window form is used there)
             \o <<MMutate(i, <<KV("w", Agg("sum", Col(iv[1])))>>)>> \o (IF \A q \in DOMAIN t.part : t.part[q] \in VisSet(t) THEN <<MSummarize(i, <<KV("s", Agg("sum", Col(iv[1])))>>)>> ELSE <<>>)

SrcHeapsOne == [k \in DOMAIN SrcPairs |-> <<SrcTables[SrcPairs[k][1]]>>]

---------------------------------------------------------------------------
(* C15: documented equivalences, instantiated on the left table (optionally after one preparatory verb);   *)
(* heap = <<t, partner>>: the partner is the join / union operand                                           *)
EquivMoves(h, i) ==
    LET t  == h[i]
        iv == Take(VisOfTy(t, "int"), 3)
        a  == IF Len(iv) >= 1 THEN iv[1] ELSE 0
        b  == IF Len(iv) >= 2 THEN iv[2] ELSE a
        g  == ColOf(t, "g")
        e1 == <<Fn2("add", Col(a), LitI(1)), Fn2("mul", Col(b), Col(a)), Agg("sum", Col(b)),
                Win("rank", <<>>, <<Ord(Col(a), FALSE, "first")>>), Case1D(Fn2("gt", Col(a), LitI(0)), Col(b), LitI(0))>>
        e2 == <<Fn2("sub", Col(b), LitI(2)), Fn2("floordiv", Col(a), LitI(2)), Agg("max", Col(a)),
                Fn2("fill_null", Col(a), LitI(-1))>>
        ps == <<Fn2("gt", Col(a), LitI(0)), Fn2("le", Col(b), LitI(3)), Fn1("is_not_null", Col(a)), Fn2("ne", Col(a), Col(b))>>
        o2 == <<Ord(Col(b), TRUE, "last"), Ord(Col(a), FALSE, "first")>>
        o3 == <<Ord(Col(a), TRUE, "last"), Ord(Col(b), FALSE, "first")>>
        wins == <<Shift(Col(b), 1, <<>>, <<>>), Win("row_number", <<>>, <<>>), Shift(Col(a), -1, <<LitI(0)>>, <<>>)>>
        withOrd(w, os, pp) == [w EXCEPT !.ord = os, !.pk = "ids", !.part = pp]
        r  == h[2]
        ra == ColOf(r, "a")
        rb == ColOf(r, "b")
    IN  IF iv = <<>> THEN <<>> ELSE
        \* one mutate / filter with several independent arguments vs one call per argument
        Flat(MapS(e1, LAMBDA x : MapS(e2, LAMBDA y :
            MEquiv(i, "mutate_split", <<MMutate(0, <<KV("x", x), KV("y", y)>>)>>, <<MMutate(0, <<KV("x", x)>>), MMutate(0, <<KV("y", y)>>)>>, FALSE))))
        \o Flat(MapS(ps, LAMBDA x : MapS(ps, LAMBDA y :
            MEquiv(i, "filter_split", <<MFilter(0, <<x, y>>)>>, <<MFilter(0, <<x>>), MFilter(0, <<y>>)>>, FALSE))))
        \* group_by(g) >> arrange(o) >> mutate(f(x)) >> ungroup()  vs  mutate(f(x, partition_by=g, arrange=o))
        \o Flat(MapS(g, LAMBDA gc : Flat(MapS(<<o2, o3>>, LAMBDA oo : MapS(wins, LAMBDA w :
            MEquiv(i, "group_window",
                   <<MGroupBy(0, <<Col(gc)>>, FALSE), MArrange(0, oo), MMutate(0, <<KV("w", w)>>), MUngroup(0)>>,
                   <<MMutate(0, <<KV("w", withOrd(w, oo, <<Col(gc)>>))>>)>>, FALSE))))))
        \o Flat(MapS(g, LAMBDA gc : MapS(<<Agg("sum", Col(b)), Len0, Agg("max", Col(a))>>, LAMBDA w :
            MEquiv(i, "group_agg",
                   <<MGroupBy(0, <<Col(gc)>>, FALSE), MMutate(0, <<KV("w", w)>>), MUngroup(0)>>,
                   <<MMutate(0, <<KV("w", [w EXCEPT !.pk = "ids", !.part = <<Col(gc)>>])>>)>>, FALSE))))
        \* ... also when the grouping column is hidden (select / drop only hide columns, the table stays grouped by it)
        \o Flat(MapS(g, LAMBDA gc : MapS(<<Agg("sum", Col(b)), Len0>>, LAMBDA w :
            MEquiv(i, "group_agg_hidden",
                   <<MGroupBy(0, <<Col(gc)>>, FALSE), MDrop(0, <<Col(gc)>>), MMutate(0, <<KV("w", w)>>), MUngroup(0)>>,
                   <<MMutate(0, <<KV("w", [w EXCEPT !.pk = "ids", !.part = <<Col(gc)>>])>>), MDrop(0, <<Col(gc)>>)>>, FALSE))))
        \* drop(c) vs select of the complement
        \o (IF t.part = <<>> /\ Len(t.vis) >= 2 THEN MapS(Take(t.vis, 3), LAMBDA c :
              MEquiv(i, "drop_select", <<MDrop(0, <<Col(c)>>)>>,
                     <<MSelect(0, MapS(SelectSeq(t.vis, LAMBDA d : d # c), LAMBDA d : Col(d)))>>, FALSE)) ELSE <<>>)
        \* rename followed by its inverse
        \o MapS(Take(t.vis, 2), LAMBDA c :
              MEquiv(i, "rename_inverse", <<MRename(0, <<[c |-> Col(c), n |-> "tmp_q"]>>), MRename(0, <<[c |-> CN("tmp_q"), n |-> t.nm[c]]>>)>>, <<>>, FALSE))
        \* a chain of slice_head vs the single combined slice
        \o (IF t.part = <<>> THEN Flat(MapS(<<<<3, 0>>, <<4, 1>>, <<2, 2>>>>, LAMBDA s1 : MapS(<<<<2, 0>>, <<2, 1>>, <<3, 2>>, <<1, 5>>>>, LAMBDA s2 :
              MEquiv(i, "slice_chain", <<MArrange(0, o2), MSlice(0, s1[1], s1[2]), MSlice(0, s2[1], s2[2])>>,
                     <<MArrange(0, o2), MSlice(0, MinI(s2[1], MaxI(s1[1] - s2[2], 0)), s1[2] + s2[2])>>, FALSE)))) ELSE <<>>)
        \* inner_join vs cross_join followed by filter
        \o (IF ra # <<>> /\ rb # <<>> /\ t.part = <<>> /\ t.root \cap r.root = {} /\ i # 2
            THEN MapS(<<Fn2("eq", Col(a), Col(ra[1])), Fn2("lt", Col(b), Col(rb[1])),
                        Fn2("and", Fn2("eq", Col(a), Col(ra[1])), Fn2("ge", Col(b), Col(rb[1]))),
                        \* the horizontal conjunction with three predicates (the last one decides)
                        FnN("hall", <<Fn2("eq", Col(a), Col(ra[1])), Fn2("le", Col(a), Col(ra[1])), Fn2("ge", Col(b), Col(rb[1]))>>),
                        Fn2("and", Fn2("and", Fn2("eq", Col(a), Col(ra[1])), Fn2("le", Col(a), Col(ra[1]))), Fn2("lt", Col(b), Col(rb[1])))>>, LAMBDA on :
                   MEquiv(i, "inner_vs_cross", <<MJoin(0, 2, <<on>>, "inner", "_r")>>, <<MCross(0, 2, "_r"), MFilter(0, <<on>>)>>, FALSE))
            ELSE <<>>)
        \* is_in(a, b) vs (x == a) | (x == b);  map vs the when / then chain
        \o <<MEquiv(i, "isin_or", <<MMutate(0, <<KV("m", FnN("is_in", <<Col(a), LitI(2), LitI(-1)>>))>>)>>,
                     <<MMutate(0, <<KV("m", Fn2("or", Fn2("eq", Col(a), LitI(2)), Fn2("eq", Col(a), LitI(-1))))>>)>>, FALSE),
             MEquiv(i, "isin_or", <<MMutate(0, <<KV("m", FnN("is_in", <<Col(a), Col(b), LitN>>))>>)>>,
                     <<MMutate(0, <<KV("m", Fn2("or", Fn2("eq", Col(a), Col(b)), Fn2("eq", Col(a), LitN)))>>)>>, FALSE),
             MEquiv(i, "map_when", <<MMutate(0, <<KV("m", [k |-> "map", e |-> Col(a), ks |-> <<<<LitI(2), LitI(4)>>, <<LitI(-1)>>>>, vs |-> <<LitI(10), Col(b)>>, d |-> <<LitI(0)>>])>>)>>,
                     <<MMutate(0, <<KV("m", Case2D(FnN("is_in", <<Col(a), LitI(2), LitI(4)>>), LitI(10), FnN("is_in", <<Col(a), LitI(-1)>>), Col(b), LitI(0)))>>)>>, FALSE),
             MEquiv(i, "map_when", <<MMutate(0, <<KV("m", [k |-> "map", e |-> Col(a), ks |-> <<<<LitI(2)>>>>, vs |-> <<LitI(10)>>, d |-> <<>>])>>)>>,
                     <<MMutate(0, <<KV("m", Case1D(FnN("is_in", <<Col(a), LitI(2)>>), LitI(10), Col(a)))>>)>>, FALSE)>>

MovesEquiv(h, kn) ==
    LET lc == LCur(h)
        hasEquiv == FALSE
    IN  EquivMoves(h, lc)
        \o (IF lc = 1 /\ {"a", "b", "p"} \subseteq VisNames(h[1]) THEN <<MFilter(1, <<Fn2("ge", Col(ByName(h[1])["a"]), LitI(0))>>),
                              MMutate(1, <<KV("a", Fn2("add", Col(ByName(h[1])["a"]), LitI(1)))>>),
                              MArrange(1, <<Ord(Col(ByName(h[1])["b"]), FALSE, "first")>>),
                              MDrop(1, <<Col(ByName(h[1])["p"])>>)>> ELSE <<>>)
        \o (IF VisNames(h[lc]) = VisNames(h[2]) /\ h[lc].part = <<>>
            THEN <<MEquiv(lc, "union_swap", <<MUnion(0, 2, FALSE)>>, <<[v |-> "union", i |-> 0, j |-> 2, distinct |-> FALSE, swap |-> TRUE]>>, TRUE),
                   MEquiv(lc, "union_swap", <<MUnion(0, 2, TRUE)>>, <<[v |-> "union", i |-> 0, j |-> 2, distinct |-> TRUE, swap |-> TRUE]>>, TRUE)>> ELSE <<>>)

=============================================================================
