-------------------------------- MODULE Alpha -------------------------------
(***************************************************************************)
(* Constructors for the surface syntax of expressions and verb moves, and  *)
(* helpers to build argument alphabets from the current table.             *)
(***************************************************************************)
EXTENDS Table

Col(c)      == [k |-> "col", id |-> c]
CN(n)       == [k |-> "cname", n |-> n]
LitI(v)     == [k |-> "lit", ty |-> "int", v |-> v]
LitB(v)     == [k |-> "lit", ty |-> "bool", v |-> v]
LitS(v)     == [k |-> "lit", ty |-> "str", v |-> v]
LitF(n, d)  == [k |-> "lit", ty |-> "float", v |-> [n |-> n, d |-> d]]       \* a python float n / d (d a power of two)
LitN        == [k |-> "lit", ty |-> "null", v |-> NULL]
LitTN(ty)   == [k |-> "lit", ty |-> ty, v |-> NULL, typed |-> TRUE]                  \* a typed null literal: pdt.lit(None, <type>)
Fn1(o, a)       == [k |-> "fn", op |-> o, a |-> <<a>>]
Fn2(o, a, b)    == [k |-> "fn", op |-> o, a |-> <<a, b>>]
Fn3(o, a, b, c) == [k |-> "fn", op |-> o, a |-> <<a, b, c>>]
FnN(o, as)      == [k |-> "fn", op |-> o, a |-> as]
Agg(o, x)       == [k |-> "agg", op |-> o, a |-> <<x>>, pk |-> "ctx", part |-> <<>>, f |-> <<>>]
AggF(o, x, p)   == [k |-> "agg", op |-> o, a |-> <<x>>, pk |-> "ctx", part |-> <<>>, f |-> <<p>>]
AggF2(o, x, p, q) == [k |-> "agg", op |-> o, a |-> <<x>>, pk |-> "ctx", part |-> <<>>, f |-> <<p, q>>]     \* filter=[p, q]
AggP(o, x, pp)  == [k |-> "agg", op |-> o, a |-> <<x>>, pk |-> "ids", part |-> pp, f |-> <<>>]
Len0            == [k |-> "agg", op |-> "len", a |-> <<>>, pk |-> "ctx", part |-> <<>>, f |-> <<>>]
Len0F(p)        == [k |-> "agg", op |-> "len", a |-> <<>>, pk |-> "ctx", part |-> <<>>, f |-> <<p>>]
Ord(e, d, nl)   == [e |-> e, desc |-> d, nl |-> nl]
Win(o, as, os)  == [k |-> "win", op |-> o, a |-> as, pk |-> "ctx", part |-> <<>>, ord |-> os, n |-> 0, fill |-> <<>>]
WinP(o, as, os, pp) == [k |-> "win", op |-> o, a |-> as, pk |-> "ids", part |-> pp, ord |-> os, n |-> 0, fill |-> <<>>]
Shift(x, n, fl, os) == [k |-> "win", op |-> "shift", a |-> <<x>>, pk |-> "ctx", part |-> <<>>, ord |-> os, n |-> n, fill |-> fl]
ShiftX(x, n, fl, os) == [k |-> "win", op |-> "shift", a |-> <<x>>, pk |-> "ctx", part |-> <<>>, ord |-> os, n |-> n, fill |-> fl, nx |-> TRUE]   \* the offset written as a constant expression
Case1(c, v)         == [k |-> "case", cs |-> <<[c |-> c, v |-> v]>>, d |-> <<>>]
Case1D(c, v, d)     == [k |-> "case", cs |-> <<[c |-> c, v |-> v]>>, d |-> <<d>>]
Case2D(c1, v1, c2, v2, d) == [k |-> "case", cs |-> <<[c |-> c1, v |-> v1], [c |-> c2, v |-> v2]>>, d |-> <<d>>]
Cast(x, to)     == [k |-> "cast", e |-> x, to |-> to]
(* a non-strict cast (strict=False: null instead of an error for values that do not convert; the same value where they do) *)
CastNS(e, to)   == [k |-> "cast", e |-> e, to |-> to, ns |-> TRUE]
(* the same cast written with the generic target type (pdt.Float() instead of pdt.Float64) *)
CastG(e, to)    == [k |-> "cast", e |-> e, to |-> to, g |-> TRUE]
Mark(o, x)      == [k |-> "mark", op |-> o, a |-> <<x>>]
KV(n, e)        == [n |-> n, e |-> e]

(* moves; i = index of the input table in the heap *)
MMutate(i, kvs)     == [v |-> "mutate", i |-> i, kv |-> kvs]
MFilter(i, ps)      == [v |-> "filter", i |-> i, ps |-> ps]
MSelect(i, cs)      == [v |-> "select", i |-> i, cs |-> cs]
MDrop(i, cs)        == [v |-> "drop", i |-> i, cs |-> cs]
MRename(i, m)       == [v |-> "rename", i |-> i, m |-> m]
MArrange(i, os)     == [v |-> "arrange", i |-> i, os |-> os]
MSlice(i, n, k)     == [v |-> "slice_head", i |-> i, n |-> n, k |-> k]
MGroupBy(i, cs, ad) == [v |-> "group_by", i |-> i, cs |-> cs, add |-> ad]
MUngroup(i)         == [v |-> "ungroup", i |-> i]
MSummarize(i, kvs)  == [v |-> "summarize", i |-> i, kv |-> kvs]
MAlias(i, nm, keep) == [v |-> "alias", i |-> i, name |-> nm, keep |-> keep]
MCollect(i, keep)   == [v |-> "collect", i |-> i, keep |-> keep]
MJoin(i, j, on, how, sfx) == [v |-> "join", i |-> i, j |-> j, on |-> on, how |-> how, suffix |-> sfx]
MCross(i, j, sfx)   == [v |-> "cross_join", i |-> i, j |-> j, suffix |-> sfx]
MUnion(i, j, d)     == [v |-> "union", i |-> i, j |-> j, distinct |-> d]
OnStr(n)            == [k |-> "str", n |-> n]
MTransfer(i, j)     == [v |-> "transfer", i |-> i, j |-> j]
MGetName(i, c)      == [v |-> "getname", i |-> i, c |-> c]        \* observation: tbl[ref].name
MEquiv(i, kind, lhs, rhs, mc) == [v |-> "equiv", i |-> i, kind |-> kind, lhs |-> lhs, rhs |-> rhs, modcols |-> mc]

(* visible columns of a given type, as a sequence in output order *)
VisOfTy(t, ty) == SelectSeq(t.vis, LAMBDA c : t.ty[c] = ty)
(* in-scope but hidden columns of a type (usable only through a table-bound reference) *)
HidOfTy(t, ty) == LET H == {c \in Scope(t) : c \notin VisSet(t) /\ t.ty[c] = ty} IN SetToSortSeq(H, <)
(* the first n elements of a sequence (or all) *)
Take(s, n) == SubSeq(s, 1, MinI(n, Len(s)))
(* map over a sequence *)
MapS(s, F(_)) == [i \in DOMAIN s |-> F(s[i])]
(* all ordered pairs (a, b), a # b of a sequence *)
PairsOf(s) == Flat([i \in DOMAIN s |-> SelectSeq([j \in DOMAIN s |-> <<s[i], s[j]>>], LAMBDA p : p[1] # p[2])])

=============================================================================
