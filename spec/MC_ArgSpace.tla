----------------------------- MODULE MC_ArgSpace -----------------------------
(***************************************************************************)
(* Argument-space enumeration for two verbs whose meaning depends on       *)
(* numbers / name sets rather than on expressions (same gen / record /     *)
(* judge scheme as MC_VerbNames):                                          *)
(*  - "slices": a table of N rows with the total order rid = 1..N,         *)
(*    `arrange(rid)`, then one to three `slice_head(n, offset=k)` calls    *)
(*    (optionally with alias() between them, which forces a subquery on    *)
(*    SQL instead of the LIMIT / OFFSET composition).  Expected: the rows  *)
(*    the calls keep one after the other (C02: rows k .. k+n-1 of the      *)
(*    current order).  Proofs.tla proves the composition formula for all   *)
(*    naturals; this binds the formula AND the subquery path to the code.  *)
(*  - "union": two tables over the same physical columns, each showing an  *)
(*    arrangement of a subset of them (the rest hidden); every column      *)
(*    holds a value that identifies (side, column).  Expected (C07): error *)
(*    unless the two visible name SETS are equal; otherwise the left names *)
(*    in the left order and, under each name, the left value then the      *)
(*    right value of THAT name (matching is by name, hidden columns never  *)
(*    take part).                                                          *)
(*  - "joinrows": two tables (lid, k) and (rid, k) holding EVERY sequence  *)
(*    of keys over JKeys up to JMaxLen rows (duplicates, nulls, empty      *)
(*    sides), joined with how in {inner, left, full} on l.k == r.k, on the *)
(*    string "k", or (inner / left) on l.k <= r.k.  Expected (C06): the    *)
(*    pairs (lid, rid) whose keys are non-null and satisfy the predicate,  *)
(*    plus each unmatched left row padded for left / full, plus each       *)
(*    unmatched right row padded for full - each exactly once.             *)
(***************************************************************************)
EXTENDS Integers, Sequences, FiniteSets, TLC, Json, IOUtils

CONSTANTS Mode, Ns, Ks, Sizes, UCols, JKeys, JMaxLen      \* JKeys: key values (0 stands for NULL), JMaxLen: rows per side

SeqSet(s) == {s[i] : i \in DOMAIN s}
Perms(S) == {p \in [1..Cardinality(S) -> S] : \A i, j \in 1..Cardinality(S) : i # j => p[i] # p[j]}
Arrs(S) == UNION {Perms(T) : T \in (SUBSET S) \ {{}}}

SliceArgs == {<<n, k>> : n \in Ns, k \in Ks}
SliceSeqs == UNION {[1..m -> SliceArgs] : m \in 1..3}
SliceConfigs == {[verb |-> "slices", size |-> z, args |-> a, alias |-> al] : z \in Sizes, a \in SliceSeqs, al \in BOOLEAN}
UnionConfigs == {[verb |-> "union", l |-> l, r |-> r, distinct |-> d] : l \in Arrs(SeqSet(UCols)), r \in Arrs(SeqSet(UCols)), d \in BOOLEAN}

KeySeqs == UNION {[1..m -> JKeys] : m \in 0..JMaxLen}
JoinConfigs == {[verb |-> "joinrows", l |-> l, r |-> r, how |-> h, on |-> o] :
                    l \in KeySeqs, r \in KeySeqs, h \in {"inner", "left", "full"}, o \in {"eq", "str", "le"}}
JoinValid(c) == c.on = "le" => c.how # "full"          \* a full join takes equality predicates only (documented ValueError otherwise)

JoinExpected(c) ==      \* set of <<lid, rid>>, 0 = padded with nulls
    LET match(i, j) == c.l[i] # 0 /\ c.r[j] # 0 /\ (IF c.on = "le" THEN c.l[i] <= c.r[j] ELSE c.l[i] = c.r[j])
        inner == {<<i, j>> : i \in DOMAIN c.l, j \in DOMAIN c.r} \cap {p \in (DOMAIN c.l) \X (DOMAIN c.r) : match(p[1], p[2])}
        lpad == {<<i, 0>> : i \in {i \in DOMAIN c.l : \A j \in DOMAIN c.r : ~match(i, j)}}
        rpad == {<<0, j>> : j \in {j \in DOMAIN c.r : \A i \in DOMAIN c.l : ~match(i, j)}}
    IN inner \cup (IF c.how \in {"left", "full"} THEN lpad ELSE {}) \cup (IF c.how = "full" THEN rpad ELSE {})

JudgeJoin(c, out, err) ==
    IF err # "" THEN "unexpected-error"
    ELSE LET e == JoinExpected(c) IN
         IF Len(out) # Cardinality(e) THEN "row-count"
         ELSE IF {out[i] : i \in DOMAIN out} = e THEN "ok" ELSE "rows"

RECURSIVE Keep(_, _, _)
Keep(rows, a, i) ==      \* apply slice_head a[i], a[i+1], ... to the sequence of row ids
    IF i > Len(a) THEN rows
    ELSE LET n == a[i][1]  k == a[i][2]
             lo == k + 1
             hi == IF k + n < Len(rows) THEN k + n ELSE Len(rows)
         IN Keep(IF lo > hi THEN <<>> ELSE SubSeq(rows, lo, hi), a, i + 1)

(* value of column number j (position in UCols) on a side: 10 * j + side (left 1, right 2) - set by the harness the same way *)
ColNo(n) == CHOOSE j \in DOMAIN UCols : UCols[j] = n

JudgeSlices(c, out, err) ==
    IF err # "" THEN "unexpected-error"
    ELSE IF out = Keep([i \in 1..c.size |-> i], c.args, 1) THEN "ok" ELSE "rows"

JudgeUnion(c, names, rows, err) ==
    IF SeqSet(c.l) # SeqSet(c.r) THEN (IF err = "ValueError" THEN "ok" ELSE IF err = "" THEN "invalid-call-accepted" ELSE "wrong-error-class")
    ELSE IF err # "" THEN "unexpected-error"
    ELSE IF names # c.l THEN "names"
    ELSE LET rowL == [j \in DOMAIN c.l |-> 10 * ColNo(c.l[j]) + 1]
             rowR == [j \in DOMAIN c.l |-> 10 * ColNo(c.l[j]) + 2]
         IN IF rows = <<rowL, rowR>> \/ rows = <<rowR, rowL>> THEN "ok" ELSE "rows"

Recs == IF Mode = "check" THEN ndJsonDeserialize(IOEnv.VERIF_ARGSPACE) ELSE <<>>

ASSUME Mode = "gen" => /\ \A c \in SliceConfigs : PrintT(ToJson(c))
                       /\ \A c \in UnionConfigs : PrintT(ToJson(c))
                       /\ \A c \in JoinConfigs : JoinValid(c) => PrintT(ToJson(c))
ASSUME Mode = "check" =>
    \A i \in DOMAIN Recs :
        LET r == Recs[i] IN
        PrintT(ToJson([i |-> i, verdict |-> IF r.c.verb = "slices" THEN JudgeSlices(r.c, r.out, r.err)
                                            ELSE IF r.c.verb = "joinrows" THEN JudgeJoin(r.c, r.out, r.err)
                                            ELSE JudgeUnion(r.c, r.names, r.out, r.err)]))

VARIABLE x
Init == x = 0
Next == FALSE /\ x' = x
=============================================================================
