----------------------------- MODULE MC_ArgSpace -----------------------------
(***************************************************************************)
(* Argument-space enumeration for two verbs whose meaning depends on       *)
(* numbers / name sets rather than on expressions (same gen / record /     *)
(* judge scheme as MC_VerbNames):                                          *)
(*  - "slices": a table of N rows with the total order rid = 1..N,         *)
(*    `arrange(rid)`, then one to three `slice_head(n, offset=k)` calls    *)
(*    (optionally with alias() between them, which forces a subquery on    *)
(*    SQL instead of the LIMIT / OFFSET composition).  Expected: the rows  *)
(*    the calls keep one after the other (C02: rows k .. k+n-1 of the      *)
(*    current order).  Proofs.tla proves the composition formula for all   *)
(*    naturals; this binds the formula AND the subquery path to the code.  *)
(*  - "union": two tables over the same physical columns, each showing an  *)
(*    arrangement of a subset of them (the rest hidden); every column      *)
(*    holds a value that identifies (side, column).  Expected (C07): error *)
(*    unless the two visible name SETS are equal; otherwise the left names *)
(*    in the left order and, under each name, the left value then the      *)
(*    right value of THAT name (matching is by name, hidden columns never  *)
(*    take part).                                                          *)
(***************************************************************************)
EXTENDS Integers, Sequences, FiniteSets, TLC, Json, IOUtils

CONSTANTS Mode, Ns, Ks, Sizes, UCols

SeqSet(s) == {s[i] : i \in DOMAIN s}
Perms(S) == {p \in [1..Cardinality(S) -> S] : \A i, j \in 1..Cardinality(S) : i # j => p[i] # p[j]}
Arrs(S) == UNION {Perms(T) : T \in (SUBSET S) \ {{}}}

SliceArgs == {<<n, k>> : n \in Ns, k \in Ks}
SliceSeqs == UNION {[1..m -> SliceArgs] : m \in 1..3}
SliceConfigs == {[verb |-> "slices", size |-> z, args |-> a, alias |-> al] : z \in Sizes, a \in SliceSeqs, al \in BOOLEAN}
UnionConfigs == {[verb |-> "union", l |-> l, r |-> r, distinct |-> d] : l \in Arrs(SeqSet(UCols)), r \in Arrs(SeqSet(UCols)), d \in BOOLEAN}

RECURSIVE Keep(_, _, _)
Keep(rows, a, i) ==      \* apply slice_head a[i], a[i+1], ... to the sequence of row ids
    IF i > Len(a) THEN rows
    ELSE LET n == a[i][1]  k == a[i][2]
             lo == k + 1
             hi == IF k + n < Len(rows) THEN k + n ELSE Len(rows)
         IN Keep(IF lo > hi THEN <<>> ELSE SubSeq(rows, lo, hi), a, i + 1)

(* value of column number j (position in UCols) on a side: 10 * j + side (left 1, right 2) - set by the harness the same way *)
ColNo(n) == CHOOSE j \in DOMAIN UCols : UCols[j] = n

JudgeSlices(c, out, err) ==
    IF err # "" THEN "unexpected-error"
    ELSE IF out = Keep([i \in 1..c.size |-> i], c.args, 1) THEN "ok" ELSE "rows"

JudgeUnion(c, names, rows, err) ==
    IF SeqSet(c.l) # SeqSet(c.r) THEN (IF err = "ValueError" THEN "ok" ELSE IF err = "" THEN "invalid-call-accepted" ELSE "wrong-error-class")
    ELSE IF err # "" THEN "unexpected-error"
    ELSE IF names # c.l THEN "names"
    ELSE LET rowL == [j \in DOMAIN c.l |-> 10 * ColNo(c.l[j]) + 1]
             rowR == [j \in DOMAIN c.l |-> 10 * ColNo(c.l[j]) + 2]
         IN IF rows = <<rowL, rowR>> \/ rows = <<rowR, rowL>> THEN "ok" ELSE "rows"

Recs == IF Mode = "check" THEN ndJsonDeserialize(IOEnv.VERIF_ARGSPACE) ELSE <<>>

ASSUME Mode = "gen" => /\ \A c \in SliceConfigs : PrintT(ToJson(c))
                       /\ \A c \in UnionConfigs : PrintT(ToJson(c))
ASSUME Mode = "check" =>
    \A i \in DOMAIN Recs :
        LET r == Recs[i] IN
        PrintT(ToJson([i |-> i, verdict |-> IF r.c.verb = "slices" THEN JudgeSlices(r.c, r.out, r.err)
                                            ELSE JudgeUnion(r.c, r.names, r.out, r.err)]))

VARIABLE x
Init == x = 0
Next == FALSE /\ x' = x
=============================================================================
