----------------------------- MODULE MC_ArgSpace -----------------------------
(***************************************************************************)
(* Argument-space enumeration for two verbs whose meaning depends on       *)
(* numbers / name sets rather than on expressions (same gen / record /     *)
(* judge scheme as MC_VerbNames):                                          *)
(*  - "slices": a table of N rows with the total order rid = 1..N,         *)
(*    `arrange(rid)`, then one to three `slice_head(n, offset=k)` calls    *)
(*    (optionally with alias() between them, which forces a subquery on    *)
(*    SQL instead of the LIMIT / OFFSET composition).  Expected: the rows  *)
(*    the calls keep one after the other (C02: rows k .. k+n-1 of the      *)
(*    current order).  Proofs.tla proves the composition formula for all   *)
(*    naturals; this binds the formula AND the subquery path to the code.  *)
(*  - "union": two tables over the same physical columns, each showing an  *)
(*    arrangement of a subset of them (the rest hidden); every column      *)
(*    holds a value that identifies (side, column).  Expected (C07): error *)
(*    unless the two visible name SETS are equal; otherwise the left names *)
(*    in the left order and, under each name, the left value then the      *)
(*    right value of THAT name (matching is by name, hidden columns never  *)
(*    take part).                                                          *)
(*  - "joinrows": two tables (lid, k) and (rid, k) holding EVERY sequence  *)
(*    of keys over JKeys up to JMaxLen rows (duplicates, nulls, empty      *)
(*    sides), joined with how in {inner, left, full} on l.k == r.k, on the *)
(*    string "k", or (inner / left) on l.k <= r.k.  Expected (C06): the    *)
(*    pairs (lid, rid) whose keys are non-null and satisfy the predicate,  *)
(*    plus each unmatched left row padded for left / full, plus each       *)
(*    unmatched right row padded for full - each exactly once.             *)
(*  - "win": a table (rid, k, v, p) for EVERY sequence of ordering keys k  *)
(*    over {null, 1, 2} up to WMaxLen rows (all tie and null patterns),    *)
(*    v = rid (optionally null in row 2), p = rid mod 2; one window        *)
(*    function (row_number, rank, dense_rank, shift by 1 / -1, cum_sum)    *)
(*    with arrange= k in every combination of descending and nulls_first / *)
(*    nulls_last, with and without partition_by= p.  Expected (C05): rank  *)
(*    and dense_rank are functions of the keys; row_number, shift and      *)
(*    cum_sum are determined up to the order within tie classes, so the    *)
(*    result must be the one of SOME total order that sorts the partition  *)
(*    by the keys (the specification of the pipelines declares these cases *)
(*    UNDEF and skips them; here they are judged).                         *)
(*  - "agg": a table (rid, g, v) for EVERY sequence of (group key, value)  *)
(*    pairs over {null, 1, 2} x {null, -1, 2} up to AMaxLen rows; one      *)
(*    aggregate (sum, min, max, mean, count, len = count()) used in a      *)
(*    grouped summarize, an ungrouped summarize, or in mutate with         *)
(*    partition_by= g.  Expected (C04): null keys form one group; the      *)
(*    aggregate ranges over the non-null values of the group; sum / min /  *)
(*    max / mean of no values is null, count of no values is 0; mean is    *)
(*    compared as an exact fraction.                                       *)
(***************************************************************************)
EXTENDS ValuesCore, Json, IOUtils         \* ValuesCore: NULL and Before1, the order of arrange / arrange=

CONSTANTS Mode, GenVerbs, Ns, Ks, Sizes, UCols, JKeys, JMaxLen, WMaxLen, AMaxLen      \* GenVerbs: which families "gen" enumerates      \* JKeys: key values (0 stands for NULL), JMaxLen: rows per side

SeqSet(s) == {s[i] : i \in DOMAIN s}
Perms(S) == {p \in [1..Cardinality(S) -> S] : \A i, j \in 1..Cardinality(S) : i # j => p[i] # p[j]}
Arrs(S) == UNION {Perms(T) : T \in (SUBSET S) \ {{}}}

SliceArgs == {<<n, k>> : n \in Ns, k \in Ks}
SliceSeqs == UNION {[1..m -> SliceArgs] : m \in 1..3}
SliceConfigs(lazy) == {[verb |-> "slices", size |-> z, args |-> a, alias |-> al] : z \in Sizes, a \in SliceSeqs, al \in BOOLEAN}
UnionConfigs(lazy) == {[verb |-> "union", l |-> l, r |-> r, distinct |-> d] : l \in Arrs(SeqSet(UCols)), r \in Arrs(SeqSet(UCols)), d \in BOOLEAN}

KeySeqs == UNION {[1..m -> JKeys] : m \in 0..JMaxLen}
(* named: FALSE = the tables have no name (the right columns then get the default suffix "_right") *)
(* form: how the conjunction of "eqle" is written - `p & q`, the list [p, q], pdt.all(p, q), and the same predicate with the  *)
(* redundant middle conjunct l.k <= r.k as `p & m & q` / pdt.all(p, m, q) (every conjunct must take part on every backend)    *)
JoinCfg(l, r, h, o, nm, fm) == [verb |-> "joinrows", l |-> l, r |-> r, how |-> h, on |-> o, named |-> nm, form |-> fm]
(* The configuration sets take a dummy parameter: TLC evaluates parameterless constant definitions when it starts, for
   every run - also for the families that are not selected - which cost minutes once the join family had grown.             *)
(* (only the combinations JoinValid keeps are built: the full product exceeds TLC's set size limit for four keys) *)
JoinConfigs(lazy) ==
    UNION {UNION {UNION {
        {JoinCfg(l, r, h, o, TRUE, "and") : o \in {"eq", "str", "le", "eqle", "eqleft", "eqright", "eqlit", "rlit", "cross"}}
        \cup {JoinCfg(l, r, h, "eqle", TRUE, fm) : fm \in {"list", "all", "and3", "all3"}}
        \cup {JoinCfg(l, r, h, o, TRUE, "rfloat") : o \in {"eq", "eqle"}}          \* the right key column is Float64, the left one Int64: same rows
        \cup {JoinCfg(l, r, h, o, FALSE, "and") : o \in {"le", "eqle"}}
        : h \in {"inner", "left", "full"}} : r \in KeySeqs} : l \in KeySeqs}
JoinValid(c) == /\ (c.on \in {"le", "eqle", "eqleft", "eqright"} => c.how # "full")
                /\ (c.on \in {"eqleft", "eqright", "eqlit", "rlit"} => c.named)
                /\ (c.on = "cross" => c.how = "inner")                 \* cross_join(r): every pair, none if a side is empty
                /\ (c.form \notin {"and", "rfloat"} => c.on = "eqle" /\ c.named)
                /\ (~c.named => (c.on \in {"eqle", "le"} /\ Len(c.l) + Len(c.r) >= 3))      \* the unnamed variant only where it takes another path          \* a full join takes equality predicates only (documented ValueError otherwise)

JoinExpected(c) ==      \* set of <<lid, rid>>, 0 = padded with nulls
    LET match(i, j) == c.on = "cross" \/ ((c.on = "rlit" \/ c.l[i] # 0) /\ c.r[j] # 0 /\ (CASE c.on = "le" -> c.l[i] <= c.r[j]
                                                          [] c.on = "eqle" -> c.l[i] = c.r[j] /\ i <= j        \* (l.k == r.k) & (lid <= rid)
                                                          \* an equality that reads one input only is a predicate like any other, not a join key
                                                          [] c.on = "eqleft" -> c.l[i] = c.r[j] /\ i = c.l[i]   \* [l.k == r.k, l.lid == l.k]
                                                          [] c.on = "eqright" -> c.l[i] = c.r[j] /\ j = c.r[j]  \* [l.k == r.k, r.rid == r.k]
                                                          [] c.on = "eqlit" -> c.l[i] = c.r[j] /\ c.r[j] = 2   \* [pdt.lit(2) == r.k, l.k == r.k] (a constant first)
                                                          [] c.on = "rlit" -> c.r[j] = 2                        \* r.k == 2 alone: every left row pairs with the right rows of key 2
                                                          [] OTHER -> c.l[i] = c.r[j]))
        inner == {<<i, j>> : i \in DOMAIN c.l, j \in DOMAIN c.r} \cap {p \in (DOMAIN c.l) \X (DOMAIN c.r) : match(p[1], p[2])}
        lpad == {<<i, 0>> : i \in {i \in DOMAIN c.l : \A j \in DOMAIN c.r : ~match(i, j)}}
        rpad == {<<0, j>> : j \in {j \in DOMAIN c.r : \A i \in DOMAIN c.l : ~match(i, j)}}
    IN inner \cup (IF c.how \in {"left", "full"} THEN lpad ELSE {}) \cup (IF c.how = "full" THEN rpad ELSE {})

JudgeJoin(c, out, err) ==
    IF err # "" THEN "unexpected-error"
    ELSE LET e == JoinExpected(c) IN
         IF Len(out) # Cardinality(e) THEN "row-count"
         ELSE IF {out[i] : i \in DOMAIN out} = e THEN "ok" ELSE "rows"

WinKeySeqs == UNION {[1..m -> {99, 1, 2}] : m \in 0..WMaxLen}        \* 99 stands for NULL
WinConfigs(lazy) == {[verb |-> "win", keys |-> ks, fn |-> f, desc |-> d, nl |-> nl, part |-> pt, vnull |-> vn] :
                  ks \in WinKeySeqs, f \in {"row_number", "rank", "dense_rank", "shift1", "shiftm1", "cum_sum"},
                  d \in BOOLEAN, nl \in {"first", "last"}, pt \in BOOLEAN, vn \in BOOLEAN}

Nv(x) == IF x = 99 THEN NULL ELSE x
RECURSIVE RunSumSeq(_, _)
RunSumSeq(vals, pos) ==      \* cum_sum: nulls are skipped; null as long as no non-null value has been seen
    IF pos = 0 THEN NULL
    ELSE LET prev == RunSumSeq(vals, pos - 1) IN
         IF vals[pos] = NULL THEN prev ELSE IF prev = NULL THEN vals[pos] ELSE prev + vals[pos]
JudgeWin(c, out, err) ==
    IF err # "" THEN "unexpected-error"
    ELSE IF Len(out) # Len(c.keys) THEN "row-count"
    ELSE
    LET n == Len(c.keys)
        K(i) == Nv(c.keys[i])
        V(i) == IF c.vnull /\ i = 2 THEN NULL ELSE i
        O(i) == Nv(out[i])
        Bef(i, j) == Before1("int", K(i), K(j), c.desc, c.nl)
        Parts == IF c.part THEN {{i \in 1..n : i % 2 = r} : r \in {0, 1}} \ {{}} ELSE {1..n} \ {{}}
        Sorted(s) == \A x, y \in DOMAIN s : x < y => ~Bef(s[y], s[x])
        Orders(P) == {s \in Perms(P) : Sorted(s)}
        RunSum(s, pos) == RunSumSeq([q \in DOMAIN s |-> V(s[q])], pos)
        okPart(P) ==
            CASE c.fn = "rank" -> \A i \in P : O(i) = 1 + Cardinality({j \in P : Bef(j, i)})
              [] c.fn = "dense_rank" -> \A i \in P : O(i) = 1 + Cardinality({K(j) : j \in {j \in P : Bef(j, i)}})
              [] c.fn = "row_number" -> \E s \in Orders(P) : \A pos \in DOMAIN s : O(s[pos]) = pos
              [] c.fn = "shift1" -> \E s \in Orders(P) : \A pos \in DOMAIN s : O(s[pos]) = (IF pos - 1 >= 1 THEN V(s[pos - 1]) ELSE NULL)
              [] c.fn = "shiftm1" -> \E s \in Orders(P) : \A pos \in DOMAIN s : O(s[pos]) = (IF pos + 1 <= Len(s) THEN V(s[pos + 1]) ELSE NULL)
              [] c.fn = "cum_sum" -> \E s \in Orders(P) : \A pos \in DOMAIN s : O(s[pos]) = RunSum(s, pos)
    IN IF \A P \in Parts : okPart(P) THEN "ok" ELSE "values"

(* "arrange": every sequence of key pairs (k1, k2) over {null, 1, 2}^2 up to AMaxLen rows, arrange(k1, k2) with every combination of *)
(* descending / nulls_first / nulls_last on both keys, optionally followed by slice_head(2).  Expected (C02): the result is a       *)
(* permutation of the rows that is sorted by the two keys (SQL sorts are not stable, so nothing more); with the slice: the first    *)
(* two rows of SOME sorted order.                                                                                                    *)
ArrRows == {<<a, b>> : a \in {99, 1, 2}, b \in {99, 1, 2}}
ArrSeqs == UNION {[1..m -> ArrRows] : m \in 0..AMaxLen}
(* ck: a constant column (mutate(k = 2); "lit": the literal pdt.lit(2) itself) is the FIRST ordering key - it orders nothing (and *)
(* must not be read as a column position)                                                                                        *)
ArrConfigs(lazy) == {[verb |-> "arrange", rows |-> rs, d1 |-> d1, n1 |-> n1, d2 |-> d2, n2 |-> n2, take |-> tk, ck |-> ck] :
                  rs \in ArrSeqs, d1 \in BOOLEAN, n1 \in {"first", "last"}, d2 \in BOOLEAN, n2 \in {"first", "last"}, tk \in {0, 2}, ck \in {"no", "col", "lit"}}

JudgeArrange(c, out, err) ==
    IF err # "" THEN "unexpected-error"
    ELSE
    LET n == Len(c.rows)
        K1(i) == Nv(c.rows[i][1])
        K2(i) == Nv(c.rows[i][2])
        B1(i, j) == Before1("int", K1(i), K1(j), c.d1, c.n1)
        B2(i, j) == Before1("int", K2(i), K2(j), c.d2, c.n2)
        Bef(i, j) == B1(i, j) \/ (~B1(j, i) /\ B2(i, j))          \* lexicographic
        SortedSeq(s) == \A x, y \in DOMAIN s : x < y => ~Bef(s[y], s[x])
        want == IF c.take = 0 THEN n ELSE MinI(c.take, n)
    IN IF Len(out) # want THEN "row-count"
       ELSE IF \E x, y \in DOMAIN out : x # y /\ out[x] = out[y] THEN "rows"
       ELSE IF ~(\A x \in DOMAIN out : out[x] \in 1..n) THEN "rows"
       ELSE IF ~SortedSeq(out) THEN "order"
       ELSE IF c.take = 0 THEN "ok"
       \* a prefix of a sorted order: no row left out sorts strictly before a row that was taken
       ELSE IF \A i \in (1..n) \ {out[x] : x \in DOMAIN out} : \A x \in DOMAIN out : ~Bef(i, out[x]) THEN "ok" ELSE "rows"

(* "mutate": a table (a, b) with a = r, b = 10 r in row r; mutate with two or three keywords whose names are an arrangement of  *)
(* {a, b, c} and whose right-hand sides range over {a, b, a + b, 0} - including every way of overwriting a column that another  *)
(* right-hand side of the SAME call reads.  Expected (C02): every right-hand side sees the table as it was before the call;     *)
(* replaced columns are dropped, the new ones appended in keyword order.                                                        *)
MutExprs == {"a", "b", "ab", "z"}
MutConfigs(lazy) == UNION {{[verb |-> "mutate", names |-> ns, exprs |-> es] : es \in [1..Len(ns) -> MutExprs]} :
                        ns \in {p \in Arrs({"a", "b", "c"}) : Len(p) >= 2}}
MutVal(x, r) == CASE x = "a" -> r [] x = "b" -> 10 * r [] x = "ab" -> 11 * r [] x = "z" -> 0
JudgeMutate(c, names, rows, err) ==
    IF err # "" THEN "unexpected-error"
    ELSE LET assigned == {c.names[i] : i \in DOMAIN c.names}
             want == SelectSeq(<<"a", "b">>, LAMBDA n : n \notin assigned) \o c.names
             cell(n, r) == IF n \in assigned THEN MutVal(c.exprs[CHOOSE i \in DOMAIN c.names : c.names[i] = n], r) ELSE MutVal(n, r)
         IN IF names # want THEN "names"
            ELSE IF rows = [r \in 1..2 |-> [j \in DOMAIN want |-> cell(want[j], r)]] THEN "ok" ELSE "rows"

AggRows == {<<k, v>> : k \in {99, 1, 2}, v \in {99, -1, 2}}
AggSeqs == UNION {[1..m -> AggRows] : m \in 0..AMaxLen}
(* flt: the filter= argument - none, one condition (v > 0), a list of conditions ([v > -5, v < 2]); a row counts iff every *)
(* condition is TRUE for it (a null condition is not true)                                                                *)
AggConfigs(lazy) == {[verb |-> "agg", rows |-> rs, op |-> o, mode |-> md, flt |-> fl] :
                  rs \in AggSeqs, o \in {"sum", "min", "max", "mean", "count", "len"}, md \in {"grouped", "ungrouped", "window", "constgroup"},
                  fl \in {"none", "vpos", "list"}}
AggKeep(c, I) == CASE c.flt = "none" -> I
                   [] c.flt = "vpos" -> {i \in I : c.rows[i][2] # 99 /\ c.rows[i][2] > 0}
                   [] c.flt = "list" -> {i \in I : c.rows[i][2] # 99 /\ c.rows[i][2] > -5 /\ c.rows[i][2] < 2}

RECURSIVE SumSeq(_)
SumSeq(s) == IF s = <<>> THEN 0 ELSE Head(s) + SumSeq(Tail(s))
RECURSIVE MinSeq(_)
MinSeq(s) == IF Len(s) = 1 THEN s[1] ELSE MinI(Head(s), MinSeq(Tail(s)))
RECURSIVE MaxSeq(_)
MaxSeq(s) == IF Len(s) = 1 THEN s[1] ELSE MaxI(Head(s), MaxSeq(Tail(s)))

(* the aggregate of the rows I (a set of row numbers) of configuration c; a mean is the pair <<sum, count>> (compared as a fraction) *)
AggOf(c, I0) ==
    LET I == AggKeep(c, I0)
        idx == SelectSeq([i \in 1..Len(c.rows) |-> i], LAMBDA i : i \in I /\ c.rows[i][2] # 99)
        vs == [q \in DOMAIN idx |-> c.rows[idx[q]][2]]
    IN CASE c.op = "len" -> Cardinality(I)
         [] c.op = "count" -> Len(vs)
         [] vs = <<>> -> NULL
         [] c.op = "sum" -> SumSeq(vs)
         [] c.op = "min" -> MinSeq(vs)
         [] c.op = "max" -> MaxSeq(vs)
         [] c.op = "mean" -> <<SumSeq(vs), Len(vs)>>

SameAgg(c, got, want) ==      \* got: 99 = null; a mean is recorded as <<numerator, denominator>>, null as <<0, 0>>
    IF c.op = "mean" THEN (IF want = NULL THEN got = <<0, 0>> ELSE got[2] # 0 /\ got[1] * want[2] = want[1] * got[2])
    ELSE IF want = NULL THEN got = 99
    ELSE got = want

JudgeAgg(c, out, err) ==
    IF err # "" THEN "unexpected-error"
    ELSE
    LET n == Len(c.rows)
        G(k) == {i \in 1..n : c.rows[i][1] = k}
        keys == {c.rows[i][1] : i \in 1..n}
    IN CASE c.mode = "constgroup" ->     \* grouped by a constant column: one group - and NO row for an empty table
              IF n = 0 THEN (IF out = <<>> THEN "ok" ELSE "groups")
              ELSE IF Len(out) # 1 THEN "groups" ELSE IF SameAgg(c, out[1][2], AggOf(c, 1..n)) THEN "ok" ELSE "values"
         [] c.mode = "ungrouped" ->      \* one row, also for an empty table
              IF Len(out) # 1 THEN "row-count" ELSE IF SameAgg(c, out[1][2], AggOf(c, 1..n)) THEN "ok" ELSE "values"
         [] c.mode = "grouped" ->        \* out: <<key, value>> per group
              IF Len(out) # Cardinality(keys) \/ {out[i][1] : i \in DOMAIN out} # keys THEN "groups"
              ELSE IF \A i \in DOMAIN out : SameAgg(c, out[i][2], AggOf(c, G(out[i][1]))) THEN "ok" ELSE "values"
         [] c.mode = "window" ->         \* out: <<rid, value>> per row
              IF Len(out) # n \/ {out[i][1] : i \in DOMAIN out} # 1..n THEN "row-count"
              ELSE IF \A i \in DOMAIN out : SameAgg(c, out[i][2], AggOf(c, G(c.rows[out[i][1]][1]))) THEN "ok" ELSE "values"

RECURSIVE Keep(_, _, _)
Keep(rows, a, i) ==      \* apply slice_head a[i], a[i+1], ... to the sequence of row ids
    IF i > Len(a) THEN rows
    ELSE LET n == a[i][1]  k == a[i][2]
             lo == k + 1
             hi == IF k + n < Len(rows) THEN k + n ELSE Len(rows)
         IN Keep(IF lo > hi THEN <<>> ELSE SubSeq(rows, lo, hi), a, i + 1)

(* value of column number j (position in UCols) on a side: 10 * j + side (left 1, right 2) - set by the harness the same way *)
ColNo(n) == CHOOSE j \in DOMAIN UCols : UCols[j] = n

JudgeSlices(c, out, err) ==
    IF err # "" THEN "unexpected-error"
    ELSE IF out = Keep([i \in 1..c.size |-> i], c.args, 1) THEN "ok" ELSE "rows"

JudgeUnion(c, names, rows, err) ==
    IF SeqSet(c.l) # SeqSet(c.r) THEN (IF err = "ValueError" THEN "ok" ELSE IF err = "" THEN "invalid-call-accepted" ELSE "wrong-error-class")
    ELSE IF err # "" THEN "unexpected-error"
    ELSE IF names # c.l THEN "names"
    ELSE LET rowL == [j \in DOMAIN c.l |-> 10 * ColNo(c.l[j]) + 1]
             rowR == [j \in DOMAIN c.l |-> 10 * ColNo(c.l[j]) + 2]
         IN IF rows = <<rowL, rowR>> \/ rows = <<rowR, rowL>> THEN "ok" ELSE "rows"

Recs == IF Mode = "check" THEN ndJsonDeserialize(IOEnv.VERIF_ARGSPACE) ELSE <<>>

ASSUME Mode = "gen" => /\ ("slices" \in GenVerbs => \A c \in SliceConfigs(0) : PrintT(ToJson(c)))
                       /\ ("union" \in GenVerbs => \A c \in UnionConfigs(0) : PrintT(ToJson(c)))
                       /\ ("joinrows" \in GenVerbs => \A c \in JoinConfigs(0) : JoinValid(c) => PrintT(ToJson(c)))
                       /\ ("win" \in GenVerbs => \A c \in WinConfigs(0) : PrintT(ToJson(c)))
                       /\ ("agg" \in GenVerbs => \A c \in AggConfigs(0) : PrintT(ToJson(c)))
                       /\ ("arrange" \in GenVerbs => \A c \in ArrConfigs(0) : PrintT(ToJson(c)))
                       /\ ("mutate" \in GenVerbs => \A c \in MutConfigs(0) : PrintT(ToJson(c)))
ASSUME Mode = "check" =>
    \A i \in DOMAIN Recs :
        LET r == Recs[i] IN
        PrintT(ToJson([i |-> i, verdict |-> IF r.c.verb = "slices" THEN JudgeSlices(r.c, r.out, r.err)
                                            ELSE IF r.c.verb = "joinrows" THEN JudgeJoin(r.c, r.out, r.err)
                                            ELSE IF r.c.verb = "win" THEN JudgeWin(r.c, r.out, r.err)
                                            ELSE IF r.c.verb = "agg" THEN JudgeAgg(r.c, r.out, r.err)
                                            ELSE IF r.c.verb = "arrange" THEN JudgeArrange(r.c, r.out, r.err)
                                            ELSE IF r.c.verb = "mutate" THEN JudgeMutate(r.c, r.names, r.out, r.err)
                                            ELSE JudgeUnion(r.c, r.names, r.out, r.err)]))

VARIABLE x
Init == x = 0
Next == FALSE /\ x' = x
=============================================================================
