CONSTANTS
  NULL = NULL
  UNDEF = UNDEF
  MaxDepth = 2
  Emit = TRUE
  SrcSel = <<1>>
  Moves <- MovesCore
  SrcHeaps <- SrcHeapsCore
INIT Init
NEXT Next
CHECK_DEADLOCK FALSE
INVARIANT ScopeWF
PROPERTY HeapAppendOnly
PROPERTY RowPreserving
PROPERTY MutateFrame
PROPERTY FilterSliceSubseq
PROPERTY SummarizeRows
PROPERTY ArrangePermutes
