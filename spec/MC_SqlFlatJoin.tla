--------------------------- MODULE MC_SqlFlatJoin ---------------------------
(***************************************************************************)
(* Design level, joins: each side accumulates element-wise mutates and     *)
(* filters into its own SELECT; the join verb merges the two accumulators  *)
(* (backend/sql.py, Join branch): FROM l JOIN r ON on [AND right WHERE for *)
(* a left join], select-list definitions of BOTH sides evaluated on the    *)
(* joined (null-padded) rows, inner join: both WHERE lists after the join. *)
(* JoinFlatCorrect: if the catalogue (Cache.requires_subquery, Join rules) *)
(* accepts the join, that query equals the sequential meaning.             *)
(***************************************************************************)
EXTENDS SqlFlat, Sources, Json

CONSTANTS MaxPre, LeftSrc, RightSrc, ThirdSrc, EmitAll     \* EmitAll: also print every join with the catalogue's decision (conformance with the code's decisions)

(* t12, q12, c12: sequential meaning, merged SELECT and Cache fields after the first join (a second join follows) *)
VARIABLES tl, tr, ql, qr, cl, cr, nid, steps, trace, phase, t12, q12, c12, how1
vars == <<tl, tr, ql, qr, cl, cr, nid, steps, trace, phase, t12, q12, c12, how1>>

Pre(t, side) ==
    LET a == IF "a" \in VisNames(t) THEN <<ByName(t)["a"]>> ELSE <<>>
        b == IF "b" \in VisNames(t) THEN <<ByName(t)["b"]>> ELSE <<>>
        fresh(n) == n \notin VisNames(t)
    IN  (IF a # <<>> /\ fresh("z") THEN <<MMutate(side, <<KV("z", Fn2("fill_null", Col(a[1]), LitI(0)))>>),
                                          MMutate(side, <<KV("z", Fn2("add", Col(a[1]), LitI(1)))>>),
                                          MMutate(side, <<KV("z", Fn1("is_null", Col(a[1])))>>),
                                          MMutate(side, <<KV("z", LitI(1))>>)>> ELSE <<>>)
        \o MapS(b, LAMBDA c : MFilter(side, <<Fn2("gt", Col(c), LitI(0))>>))
        \o MapS(a, LAMBDA c : MFilter(side, <<Fn1("is_not_null", Col(c))>>))
        \o (IF EmitAll /\ b # <<>> /\ fresh("w") THEN <<MMutate(side, <<KV("w", Agg("sum", Col(b[1])))>>)>> ELSE <<>>)     \* a window column
        \o (IF EmitAll /\ a # <<>> /\ t.part = <<>> THEN <<MGroupBy(side, <<Col(a[1])>>, FALSE)>> ELSE <<>>)          \* by the join key, so that it survives the summarize
        \o (IF EmitAll /\ t.part # <<>> /\ fresh("s") /\ b # <<>> THEN <<MSummarize(side, <<KV("s", Agg("max", Col(b[1])))>>)>> ELSE <<>>)
        \o (IF EmitAll /\ a # <<>> THEN <<MArrange(side, <<Ord(Col(a[1]), FALSE, "last")>>)>> ELSE <<>>)
        \o (IF EmitAll THEN <<MSlice(side, 3, 0)>> ELSE <<>>)
        \* overwriting mutates keep the column names (a union needs equal names on both sides)
        \o (IF EmitAll /\ b # <<>> THEN <<MMutate(side, <<KV("b", Fn2("add", Col(b[1]), LitI(1)))>>),
                                           MMutate(side, <<KV("b", Agg("sum", Col(b[1])))>>)>> ELSE <<>>)
        \o (IF EmitAll /\ b # <<>> /\ t.part = <<>> THEN <<MSummarize(side, <<KV("b", Agg("max", Col(b[1])))>>)>> ELSE <<>>)     \* ungrouped summarize: one column b

Init == /\ tl = SrcTables[LeftSrc] /\ tr = SrcTables[RightSrc]
        /\ ql = Q0(tl) /\ qr = Q0(tr) /\ cl = Cs0 /\ cr = Cs0
        /\ nid = 100 /\ steps = 0 /\ trace = <<>> /\ phase = "pre"
        /\ t12 = tl /\ q12 = Q0(tl) /\ c12 = Cs0 /\ how1 = ""

ApplyPre(t, m, n) == CASE m.v = "mutate" -> Mutate(t, m.kv, n)
                       [] m.v = "filter" -> Filter(t, m.ps)
                       [] m.v = "group_by" -> GroupBy(t, m.cs, m.add)
                       [] m.v = "summarize" -> Summarize(t, m.kv, n)
                       [] m.v = "arrange" -> Arrange(t, m.os)
                       [] m.v = "slice_head" -> SliceHead(t, m.n, m.k)
NewIds(m) == IF m.v \in {"mutate", "summarize"} THEN Len(m.kv) ELSE 0
PreOk(c, t, m) == Rq(c, t, m) = ""      \* the side itself stays one SELECT

PreStep ==
    /\ phase = "pre" /\ steps < MaxPre
    /\ \/ \E j \in DOMAIN Pre(tl, 1) :
            LET m == Pre(tl, 1)[j] r == ApplyPre(tl, m, nid) IN
            /\ r.ok /\ ~HasUndef(r.t) /\ PreOk(cl, tl, m)
            /\ tl' = r.t /\ ql' = Acc(ql, m, nid, r.t) /\ cl' = CsUpdate(cl, tl, m)
            /\ nid' = nid + NewIds(m)
            /\ trace' = Append(trace, m) /\ UNCHANGED <<tr, qr, cr>>
       \/ \E j \in DOMAIN Pre(tr, 2) :
            LET m == Pre(tr, 2)[j] r == ApplyPre(tr, m, nid) IN
            /\ r.ok /\ ~HasUndef(r.t) /\ PreOk(cr, tr, m)
            /\ tr' = r.t /\ qr' = Acc(qr, m, nid, r.t) /\ cr' = CsUpdate(cr, tr, m)
            /\ nid' = nid + NewIds(m)
            /\ trace' = Append(trace, m) /\ UNCHANGED <<tl, ql, cl>>
    /\ steps' = steps + 1 /\ UNCHANGED <<phase, t12, q12, c12, how1>>

(* is_null_strict (pipe/cache.py, repair of F08): an expression that is null in every row in which all columns it reads are null *)
(* can be evaluated after an outer join; fill_null, is_null, coalesce, Kleene and / or, horizontal functions, is_in, literals and  *)
(* case expressions cannot.  A column defined on this side is judged by its definition.                                             *)
NotNullPropagating == {"fill_null", "is_null", "is_not_null", "coalesce", "and", "or", "hmax", "hmin", "hsum", "hany", "hall", "is_in"}
RECURSIVE StrictE(_, _)
StrictE(e, defs) ==
    CASE e.k = "col" -> IF \E i \in DOMAIN defs : defs[i].id = e.id
                        THEN StrictE(defs[CHOOSE i \in DOMAIN defs : defs[i].id = e.id].e, defs) ELSE TRUE
      [] e.k = "cast" -> StrictE(e.e, defs)
      [] e.k = "fn" -> e.op \notin NotNullPropagating /\ \E i \in DOMAIN e.a : StrictE(e.a[i], defs)
      [] OTHER -> FALSE
StrictCol(x, defs) == StrictE(Col(x), defs)

(* Cache.requires_subquery, Join rules, for one side (isRight: the `node.child not in derived_from` case); q: that side's accumulator *)
RqJoin(c, t, q, how, isRight) ==
    IF c.lim # -1 THEN "join after slice_head"
    ELSE IF c.grp # {} \/ c.summ THEN "join with a grouped table"
    ELSE IF (how = "full" \/ (isRight /\ how = "left")) /\ \E x \in VisSet(t) : t.fk[x] = "e" /\ IsConstCol(t, x)
         THEN "left / full join with a table containing a constant column"
    ELSE IF (how = "full" \/ (isRight /\ how = "left")) /\ \E x \in VisSet(t) : ~StrictCol(x, q.defs)
         THEN "left / full join with a table containing a column that is not null for null inputs"
    ELSE IF \E x \in VisSet(t) : t.fk[x] = "w" THEN "join with a table containing window function expression"
    ELSE IF c.filt /\ how = "full" THEN "full join with a filtered table"
    ELSE ""

JoinKeysVisible == ByName(SrcTables[LeftSrc])["a"] \in VisSet(tl) /\ ByName(SrcTables[RightSrc])["a"] \in VisSet(tr)
JoinOn == <<Fn2("eq", Col(ByName(SrcTables[LeftSrc])["a"]), Col(ByName(SrcTables[RightSrc])["a"]))>>

(* the merged SELECT of backend/sql.py *)
JoinBase(how) == Join(ql.base, qr.base, JoinOn \o (IF how = "left" THEN qr.where ELSE <<>>), how, "_r")
JoinWhere(how) == IF how = "left" THEN ql.where ELSE ql.where \o qr.where
JoinFlat(how) ==
    LET J == JoinBase(how)
        D == IF J.ok THEN MutAll(Ok([J.t EXCEPT !.part = <<>>]), ql.defs \o qr.defs, 1) ELSE J
    IN FilAll(D, JoinWhere(how), 1)

JoinSeq(how) == Join(tl, tr, JoinOn, how, "_r")

DecisionStep ==      \* conformance mode: every reachable pair of sides x join kind with the catalogue's decision
    /\ phase = "pre" /\ EmitAll
    /\ \E how \in {"inner", "left", "full"} :
         LET needL == RqJoin(cl, tl, ql, how, FALSE)
             needR == RqJoin(cr, tr, qr, how, TRUE)
         IN /\ JoinKeysVisible /\ JoinSeq(how).ok      \* a grouped side is a ValueError of the verb on every back end
            /\ PrintT(ToJson([left |-> SrcTables[LeftSrc].name, right |-> SrcTables[RightSrc].name, pre |-> trace, how |-> how,
                               needL |-> needL, needR |-> needR]))
            /\ phase' = "decided"
    /\ UNCHANGED <<tl, tr, ql, qr, cl, cr, nid, steps, trace, t12, q12, c12, how1>>

(* Cache.update for a Join node (pipe/cache.py): limit / group_by / is_summarized are reset; is_filtered: see JoinFilt *)
JoinFilt(a, b, how) == a.filt \/ (how = "inner" /\ b.filt)      \* the WHERE list of an inner join holds the right side's predicates too (F27)
JoinCs(a, b, how) == [Cs0 EXCEPT !.filt = JoinFilt(a, b, how)]

(* Cache.requires_subquery, Union rules (the same for both sides) *)
RqUnion(c, t) ==
    IF c.lim # -1 THEN "union after slice_head"
    ELSE IF c.grp # {} \/ c.summ THEN "union with a grouped table"
    ELSE IF \E x \in VisSet(t) : t.fk[x] = "w" THEN "union with a table containing window function expression"
    ELSE ""

UnionDecisionStep ==
    /\ phase = "pre" /\ EmitAll
    /\ \E dist \in BOOLEAN :
         /\ Union(tl, tr, dist).ok
         /\ PrintT(ToJson([left |-> SrcTables[LeftSrc].name, right |-> SrcTables[RightSrc].name, pre |-> trace, how |-> "union", distinct |-> dist,
                            needL |-> RqUnion(cl, tl), needR |-> RqUnion(cr, tr)]))
         /\ phase' = "decided"
    /\ UNCHANGED <<tl, tr, ql, qr, cl, cr, nid, steps, trace, t12, q12, c12, how1>>

JoinStep ==
    /\ phase = "pre"
    /\ \E how \in {"inner", "left", "full"} :
         LET needL == RqJoin(cl, tl, ql, how, FALSE)
             needR == RqJoin(cr, tr, qr, how, TRUE)
             S == JoinSeq(how)
             F == JoinFlat(how)
         IN /\ S.ok /\ needL = "" /\ needR = "" /\ JoinBase(how).ok
            /\ (IF SameVisible(F, S.t) \/ EmitAll THEN TRUE
                ELSE PrintT(ToJson([left |-> SrcTables[LeftSrc].name, right |-> SrcTables[RightSrc].name, pre |-> trace, how |-> how])))
            /\ phase' = IF SameVisible(F, S.t) THEN "j1" ELSE "bad"
            /\ how1' = how /\ t12' = S.t
            /\ q12' = [Q0(S.t) EXCEPT !.base = [JoinBase(how).t EXCEPT !.part = <<>>], !.defs = ql.defs \o qr.defs, !.where = JoinWhere(how)]
            /\ c12' = JoinCs(cl, cr, how)
    /\ UNCHANGED <<tl, tr, ql, qr, cl, cr, nid, steps, trace>>

(* a second join of the result with a fresh third table *)
Third == SrcTables[ThirdSrc]
JoinOn2 == <<Fn2("eq", Col(ByName(SrcTables[LeftSrc])["a"]), Col(ByName(Third)["a"]))>>
Join2Flat(how2) ==
    LET J == Join(q12.base, Third, JoinOn2, how2, "_s")
        D == IF J.ok THEN MutAll(Ok([J.t EXCEPT !.part = <<>>]), q12.defs, 1) ELSE J
    IN FilAll(D, q12.where, 1)
Join2Seq(how2) == Join(t12, Third, JoinOn2, how2, "_s")

(* conformance mode, second stage: the decision for the join of an (accepted, inlined) join result with a third table - the   *)
(* state the first join leaves behind (JoinCs: limit / grouping reset, is_filtered by JoinFilt) decides                          *)
Decision2Step ==
    /\ phase = "j1" /\ EmitAll /\ ThirdSrc # 0 /\ ByName(SrcTables[LeftSrc])["a"] \in VisSet(t12)
    /\ \E how2 \in {"inner", "left", "full"} :
         /\ Join2Seq(how2).ok
         /\ PrintT(ToJson([left |-> SrcTables[LeftSrc].name, right |-> SrcTables[RightSrc].name, third |-> Third.name, pre |-> trace,
                            how |-> how1, how2 |-> how2, needL |-> RqJoin(c12, t12, q12, how2, FALSE), needR |-> ""]))
         /\ phase' = "decided2"
    /\ UNCHANGED <<tl, tr, ql, qr, cl, cr, nid, steps, trace, t12, q12, c12, how1>>

Join2Step ==
    /\ phase = "j1" /\ ~EmitAll /\ ThirdSrc # 0 /\ ByName(SrcTables[LeftSrc])["a"] \in VisSet(t12)
    /\ \E how2 \in {"inner", "left", "full"} :
         LET need == RqJoin(c12, t12, q12, how2, FALSE)
             S == Join2Seq(how2)
             F == Join2Flat(how2)
         IN /\ S.ok /\ need = ""
            /\ (IF SameVisible(F, S.t) THEN TRUE
                ELSE PrintT(ToJson([left |-> SrcTables[LeftSrc].name, right |-> SrcTables[RightSrc].name, third |-> Third.name,
                                    pre |-> trace, how |-> how1, how2 |-> how2])))
            /\ phase' = IF SameVisible(F, S.t) THEN "ok2" ELSE "bad2"
    /\ UNCHANGED <<tl, tr, ql, qr, cl, cr, nid, steps, trace, t12, q12, c12, how1>>

Next == PreStep \/ JoinStep \/ Join2Step \/ DecisionStep \/ UnionDecisionStep \/ Decision2Step

View == <<tl, tr, ql, qr, cl, cr, nid, steps, phase, how1>>

=============================================================================
