--------------------------- MODULE MC_SqlFlatJoin ---------------------------
(***************************************************************************)
(* Design level, joins: each side accumulates element-wise mutates and     *)
(* filters into its own SELECT; the join verb merges the two accumulators  *)
(* (backend/sql.py, Join branch): FROM l JOIN r ON on [AND right WHERE for *)
(* a left join], select-list definitions of BOTH sides evaluated on the    *)
(* joined (null-padded) rows, inner join: both WHERE lists after the join. *)
(* JoinFlatCorrect: if the catalogue (Cache.requires_subquery, Join rules) *)
(* accepts the join, that query equals the sequential meaning.             *)
(***************************************************************************)
EXTENDS SqlFlat, Sources, Json

CONSTANTS MaxPre, LeftSrc, RightSrc, EmitAll     \* EmitAll: also print every join with the catalogue's decision (conformance with the code's decisions)

VARIABLES tl, tr, ql, qr, cl, cr, nid, steps, trace, phase
vars == <<tl, tr, ql, qr, cl, cr, nid, steps, trace, phase>>

Pre(t, side) ==
    LET a == IF "a" \in VisNames(t) THEN <<ByName(t)["a"]>> ELSE <<>>
        b == IF "b" \in VisNames(t) THEN <<ByName(t)["b"]>> ELSE <<>>
        fresh(n) == n \notin VisNames(t)
    IN  (IF a # <<>> /\ fresh("z") THEN <<MMutate(side, <<KV("z", Fn2("fill_null", Col(a[1]), LitI(0)))>>),
                                          MMutate(side, <<KV("z", Fn2("add", Col(a[1]), LitI(1)))>>),
                                          MMutate(side, <<KV("z", Fn1("is_null", Col(a[1])))>>),
                                          MMutate(side, <<KV("z", LitI(1))>>)>> ELSE <<>>)
        \o MapS(b, LAMBDA c : MFilter(side, <<Fn2("gt", Col(c), LitI(0))>>))
        \o MapS(a, LAMBDA c : MFilter(side, <<Fn1("is_not_null", Col(c))>>))
        \o (IF EmitAll /\ b # <<>> /\ fresh("w") THEN <<MMutate(side, <<KV("w", Agg("sum", Col(b[1])))>>)>> ELSE <<>>)     \* a window column
        \o (IF EmitAll /\ b # <<>> /\ t.part = <<>> THEN <<MGroupBy(side, <<Col(b[1])>>, FALSE)>> ELSE <<>>)
        \o (IF EmitAll /\ t.part # <<>> /\ fresh("s") /\ a # <<>> THEN <<MSummarize(side, <<KV("s", Agg("max", Col(a[1])))>>)>> ELSE <<>>)
        \o (IF EmitAll /\ a # <<>> THEN <<MArrange(side, <<Ord(Col(a[1]), FALSE, "last")>>)>> ELSE <<>>)
        \o (IF EmitAll THEN <<MSlice(side, 3, 0)>> ELSE <<>>)

Init == /\ tl = SrcTables[LeftSrc] /\ tr = SrcTables[RightSrc]
        /\ ql = Q0(tl) /\ qr = Q0(tr) /\ cl = Cs0 /\ cr = Cs0
        /\ nid = 100 /\ steps = 0 /\ trace = <<>> /\ phase = "pre"

ApplyPre(t, m, n) == CASE m.v = "mutate" -> Mutate(t, m.kv, n)
                       [] m.v = "filter" -> Filter(t, m.ps)
                       [] m.v = "group_by" -> GroupBy(t, m.cs, m.add)
                       [] m.v = "summarize" -> Summarize(t, m.kv, n)
                       [] m.v = "arrange" -> Arrange(t, m.os)
                       [] m.v = "slice_head" -> SliceHead(t, m.n, m.k)
NewIds(m) == IF m.v \in {"mutate", "summarize"} THEN Len(m.kv) ELSE 0
PreOk(c, t, m) == Rq(c, t, m) = ""      \* the side itself stays one SELECT

PreStep ==
    /\ phase = "pre" /\ steps < MaxPre
    /\ \/ \E j \in DOMAIN Pre(tl, 1) :
            LET m == Pre(tl, 1)[j] r == ApplyPre(tl, m, nid) IN
            /\ r.ok /\ ~HasUndef(r.t) /\ PreOk(cl, tl, m)
            /\ tl' = r.t /\ ql' = Acc(ql, m, nid, r.t) /\ cl' = CsUpdate(cl, tl, m)
            /\ nid' = nid + NewIds(m)
            /\ trace' = Append(trace, m) /\ UNCHANGED <<tr, qr, cr>>
       \/ \E j \in DOMAIN Pre(tr, 2) :
            LET m == Pre(tr, 2)[j] r == ApplyPre(tr, m, nid) IN
            /\ r.ok /\ ~HasUndef(r.t) /\ PreOk(cr, tr, m)
            /\ tr' = r.t /\ qr' = Acc(qr, m, nid, r.t) /\ cr' = CsUpdate(cr, tr, m)
            /\ nid' = nid + NewIds(m)
            /\ trace' = Append(trace, m) /\ UNCHANGED <<tl, ql, cl>>
    /\ steps' = steps + 1 /\ UNCHANGED phase

(* Cache.requires_subquery, Join rules, for one side (isRight: the `node.child not in derived_from` case) *)
RqJoin(c, t, how, isRight) ==
    IF c.lim # 0 THEN "join after slice_head"
    ELSE IF c.grp # {} \/ c.summ THEN "join with a grouped table"
    ELSE IF (how = "full" \/ (isRight /\ how = "left")) /\ \E x \in VisSet(t) : t.fk[x] = "e" /\ IsConstCol(t, x)
         THEN "left / full join with a table containing a constant column"
    ELSE IF \E x \in VisSet(t) : t.fk[x] = "w" THEN "join with a table containing window function expression"
    ELSE IF c.filt /\ how = "full" THEN "full join with a filtered table"
    ELSE ""

JoinKeysVisible == ByName(SrcTables[LeftSrc])["a"] \in VisSet(tl) /\ ByName(SrcTables[RightSrc])["a"] \in VisSet(tr)
JoinOn == <<Fn2("eq", Col(ByName(SrcTables[LeftSrc])["a"]), Col(ByName(SrcTables[RightSrc])["a"]))>>

(* the merged SELECT of backend/sql.py *)
JoinFlat(how) ==
    LET J == Join(ql.base, qr.base, JoinOn \o (IF how = "left" THEN qr.where ELSE <<>>), how, "_r")
        D == IF J.ok THEN MutAll(Ok([J.t EXCEPT !.part = <<>>]), ql.defs \o qr.defs, 1) ELSE J
        W == IF how = "left" THEN ql.where ELSE ql.where \o qr.where
    IN FilAll(D, W, 1)

JoinSeq(how) == Join(tl, tr, JoinOn, how, "_r")

DecisionStep ==      \* conformance mode: every reachable pair of sides x join kind with the catalogue's decision
    /\ phase = "pre" /\ EmitAll
    /\ \E how \in {"inner", "left", "full"} :
         LET needL == RqJoin(cl, tl, how, FALSE)
             needR == RqJoin(cr, tr, how, TRUE)
         IN /\ JoinKeysVisible /\ JoinSeq(how).ok      \* a grouped side is a ValueError of the verb on every back end
            /\ PrintT(ToJson([left |-> SrcTables[LeftSrc].name, right |-> SrcTables[RightSrc].name, pre |-> trace, how |-> how,
                               needL |-> needL, needR |-> needR]))
            /\ phase' = "decided"
    /\ UNCHANGED <<tl, tr, ql, qr, cl, cr, nid, steps, trace>>

JoinStep ==
    /\ phase = "pre" /\ ~EmitAll
    /\ \E how \in {"inner", "left", "full"} :
         LET needL == RqJoin(cl, tl, how, FALSE)
             needR == RqJoin(cr, tr, how, TRUE)
             S == JoinSeq(how)
             F == JoinFlat(how)
         IN /\ S.ok /\ needL = "" /\ needR = ""
            /\ (IF SameVisible(F, S.t) THEN TRUE
                ELSE PrintT(ToJson([left |-> SrcTables[LeftSrc].name, right |-> SrcTables[RightSrc].name, pre |-> trace, how |-> how])))
            /\ phase' = IF SameVisible(F, S.t) THEN "ok" ELSE "bad"
    /\ UNCHANGED <<tl, tr, ql, qr, cl, cr, nid, steps, trace>>

Next == PreStep \/ JoinStep \/ DecisionStep

View == <<tl, tr, ql, qr, cl, cr, nid, steps, phase>>

=============================================================================
