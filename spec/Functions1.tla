----------------------------- MODULE Functions1 -----------------------------
(***************************************************************************)
(* Algebraic laws of the value language, checked by TLC over the complete  *)
(* test-value domains.  They guard the oracle itself: the replay compares  *)
(* the implementation with Values.tla / Expr.tla, these laws compare       *)
(* Values.tla with the documentation's statements (C03, C17).              *)
(***************************************************************************)
EXTENDS Values

VARIABLE tick

IntV  == {-7, -3, -2, -1, 0, 1, 2, 3, 7, 65}
IntN  == IntV \cup {NULL}
BoolN == {NULL, TRUE, FALSE}
RatV  == {Rat(n, d) : n \in -7..7, d \in {1, 2, 4}}

Init == tick = 0
Next == tick < 1 /\ tick' = tick + 1

(* `//` truncates toward zero, `%` takes the sign of the dividend, and together they reconstruct the dividend *)
DivModReconstruct == \A a, b \in IntV : b # 0 => TDivI(a, b) * b + TModI(a, b) = a
ModSignOfDividend == \A a, b \in IntV : b # 0 => SgnI(TModI(a, b)) \in {0, SgnI(a)}
ModSmallerThanDivisor == \A a, b \in IntV : b # 0 => AbsI(TModI(a, b)) < AbsI(b)
DivTruncSymmetric == \A a, b \in IntV : b # 0 => (TDivI(-a, b) = -TDivI(a, b) /\ TDivI(a, -b) = -TDivI(a, b))
DivByZeroUndefined == \A a \in IntV : IsU(FloorDivV(a, 0)) /\ IsU(ModV(a, 0)) /\ IsU(TrueDivV(a, 0))
ArithPropagatesNull == \A a \in IntN : /\ IsN(AddV(a, NULL)) /\ IsN(AddV(NULL, a)) /\ IsN(SubV(a, NULL)) /\ IsN(MulV(NULL, a))
                                        /\ IsN(NegV(NULL)) /\ IsN(AbsV(NULL)) /\ IsN(FloorDivV(NULL, 3)) /\ IsN(ModV(a, NULL))
CompareNullPropagates == \A a \in IntN : IsN(EqV("int", a, NULL)) /\ IsN(LtV("int", NULL, a)) /\ IsN(NeV("int", a, NULL))
CompareTrichotomy == \A a, b \in IntV : Cardinality({x \in {LtV("int", a, b), EqV("int", a, b), GtV("int", a, b)} : x = TRUE}) = 1

(* Kleene logic *)
KleeneDeMorgan == \A a, b \in BoolN : Not3(And3(a, b)) = Or3(Not3(a), Not3(b)) /\ Not3(Or3(a, b)) = And3(Not3(a), Not3(b))
KleeneCommutative == \A a, b \in BoolN : And3(a, b) = And3(b, a) /\ Or3(a, b) = Or3(b, a) /\ Xor3(a, b) = Xor3(b, a)
KleeneAbsorbing == \A a \in BoolN : And3(a, FALSE) = FALSE /\ Or3(a, TRUE) = TRUE /\ And3(a, TRUE) = a /\ Or3(a, FALSE) = a
KleeneNullRows == IsN(And3(NULL, TRUE)) /\ IsN(Or3(NULL, FALSE)) /\ IsN(Xor3(NULL, TRUE)) /\ IsN(Xor3(FALSE, NULL)) /\ IsN(Not3(NULL))
KleeneAssociative == \A a, b, c \in BoolN : And3(a, And3(b, c)) = And3(And3(a, b), c) /\ Or3(a, Or3(b, c)) = Or3(Or3(a, b), c)

(* rationals *)
RatNormal == \A r \in RatV : r.d > 0 /\ GcdI(AbsI(r.n), r.d) = 1
TruncTowardZero == \A r \in RatV : /\ RatTrunc([n |-> -r.n, d |-> r.d]) = -RatTrunc(r)
                                   /\ AbsI(RatTrunc(r)) * r.d <= AbsI(r.n) /\ AbsI(r.n) < (AbsI(RatTrunc(r)) + 1) * r.d
FloorCeil == \A r \in RatV : /\ RatFloor(r) * r.d <= r.n /\ r.n < (RatFloor(r) + 1) * r.d
                             /\ (RatCeil(r) - 1) * r.d < r.n /\ r.n <= RatCeil(r) * r.d
RatOrderTotal == \A r, s \in RatV : Cardinality({x \in {RatLt(r, s), RatEq(r, s), RatLt(s, r)} : x}) = 1
IntDivIsRat == \A a, b \in IntV : b # 0 => RatEq(TrueDivV(a, b), Rat(a, b)) /\ (TModI(a, b) = 0 => TrueDivV(a, b).d = 1)

(* ordering with markers: nulls_first / nulls_last place nulls regardless of descending *)
NullPlacement == \A a \in IntV : \A desc \in BOOLEAN :
                    /\ Before1("int", NULL, a, desc, "first") /\ ~Before1("int", a, NULL, desc, "first")
                    /\ Before1("int", a, NULL, desc, "last") /\ ~Before1("int", NULL, a, desc, "last")
BeforeIrreflexive == \A a \in IntN : \A desc \in BOOLEAN : \A nl \in {"first", "last"} : ~Before1("int", a, a, desc, nl)
BeforeAsymmetric == \A a, b \in IntN : \A desc \in BOOLEAN : \A nl \in {"first", "last"} :
                        ~(Before1("int", a, b, desc, nl) /\ Before1("int", b, a, desc, nl))
DescReverses == \A a, b \in IntV : Before1("int", a, b, TRUE, "last") = Before1("int", b, a, FALSE, "last")

=============================================================================
