------------------------------ MODULE Pipeline ------------------------------
(***************************************************************************)
(* The state machine: a heap of table values that grows by verb            *)
(* applications.  One action per public call.                              *)
(*                                                                         *)
(* Generation shape (DESIGN.md 2.2): every verb application is split into  *)
(* Choose (pick a move from the alphabet, no evaluation) and Apply         *)
(* (deterministic evaluation); Finish is enabled at the depth bound and is *)
(* the only action that emits.  hist is a history variable that carries,   *)
(* for every applied move, the observation the specification predicts.     *)
(***************************************************************************)
EXTENDS Alpha, Json, CacheModel

CONSTANTS MaxDepth,        \* number of applied moves per behaviour
          Moves(_, _),     \* Moves(heap, known): the sequence of moves offered in this state
          SrcHeaps,        \* sequence of initial heaps (each a sequence of source tables)
          Emit,            \* BOOLEAN: Finish prints the behaviour as JSON
          AllowUndef       \* BOOLEAN: keep results with UNDEF cells (operator tables: the cell is skipped by the replayer)

VARIABLES heap,    \* Seq(TableValue): sources first, then every table any action produced (append-only)
          nid,     \* next fresh column identity
          known,   \* ColIds that were visible in some heap entry = references a user can hold
          hist,    \* history: Seq([m |-> move, o |-> observation | err |-> class])
          pend,    \* the chosen, not yet applied move
          done,    \* behaviour finished (and emitted)
          src      \* index into SrcHeaps (which initial heap this behaviour started from)

vars == <<heap, nid, known, hist, pend, done, src>>

None == [v |-> "none"]

VisAll(h) == UNION {VisSet(h[i]) : i \in DOMAIN h}

Init == /\ src \in DOMAIN SrcHeaps
        /\ heap = SrcHeaps[src]
        /\ nid = 100
        /\ known = VisAll(SrcHeaps[src])
        /\ hist = <<>>
        /\ pend = None
        /\ done = FALSE

NewCount(h, m) == CASE m.v \in {"mutate", "summarize"} -> Len(m.kv)
                    [] m.v = "alias" -> AliasNew(h[m.i], m.keep)
                    [] m.v = "collect" -> CollectNew(h[m.i], m.keep)
                    [] OTHER -> 0

(* the meaning of one move *)
ApplyMove(h, m, n) ==
    CASE m.v = "mutate"     -> Mutate(h[m.i], m.kv, n)
      [] m.v = "filter"     -> Filter(h[m.i], m.ps)
      [] m.v = "select"     -> Select(h[m.i], m.cs)
      [] m.v = "drop"       -> Drop(h[m.i], m.cs)
      [] m.v = "rename"     -> Rename(h[m.i], m.m)
      [] m.v = "arrange"    -> Arrange(h[m.i], m.os)
      [] m.v = "slice_head" -> SliceHead(h[m.i], m.n, m.k)
      [] m.v = "group_by"   -> GroupBy(h[m.i], m.cs, m.add)
      [] m.v = "ungroup"    -> Ungroup(h[m.i])
      [] m.v = "summarize"  -> Summarize(h[m.i], m.kv, n)
      [] m.v = "alias"      -> Alias(h[m.i], m.name, m.keep, n)
      [] m.v = "collect"    -> Collect(h[m.i], m.keep, n)
      [] m.v = "join"       -> Join(h[m.i], h[m.j], m.on, m.how, m.suffix)
      [] m.v = "cross_join" -> Join(h[m.i], h[m.j], <<>>, "inner", m.suffix)
      [] m.v = "union"      -> Union(h[m.i], h[m.j], m.distinct)
      [] m.v = "transfer"   -> Transfer(h[m.i], h[m.j])

Choose == /\ ~done /\ pend = None /\ Len(hist) < MaxDepth
          /\ LET ms == Moves(heap, known) IN
             \E j \in DOMAIN ms : pend' = ms[j]
          /\ UNCHANGED <<heap, nid, known, hist, done, src>>

IsObsMove(m) == m.v \in {"getname", "equiv"}

(* C15: two move sequences started from the same table (inner moves have i = 0: "the current table", j = heap index) *)
ApplyMoveOn(h, t, m, n) ==
    IF "swap" \in DOMAIN m THEN ApplyMove(Append(h, t), [m EXCEPT !.i = m.j, !.j = Len(h) + 1], n)   \* current table as RIGHT operand
    ELSE ApplyMove(Append(h, t), [m EXCEPT !.i = Len(h) + 1], n)
RECURSIVE RunSeq(_, _, _, _)
RunSeq(h, t, ms, n) ==
    IF ms = <<>> THEN Ok(t)
    ELSE LET r == ApplyMoveOn(h, t, ms[1], n) IN
         IF r.ok THEN (IF HasUndef(r.t) THEN Fail("UNDEF")
                       ELSE RunSeq(h, r.t, Tail(ms), n + NewCount(Append(h, t), [ms[1] EXCEPT !.i = Len(h) + 1])))
         ELSE r

RowsByName(t, names) == [r \in DOMAIN t.rows |-> [q \in DOMAIN names |-> t.rows[r][ByName(t)[names[q]]]]]
CountIn(s, x) == Cardinality({q \in DOMAIN s : s[q] = x})
BagEq(a, b) == Len(a) = Len(b) /\ \A q \in DOMAIN a : CountIn(a, a[q]) = CountIn(b, a[q])
(* same visible table up to row order; modcols: also up to column order *)
SameTable(L, R, modcols) ==
    /\ IF modcols THEN VisNames(L) = VisNames(R) ELSE NamesOf(L) = NamesOf(R)
    /\ BagEq(RowsByName(L, NamesOf(L)), RowsByName(R, NamesOf(L)))
ObsValue(h, m, n) ==
    CASE m.v = "getname" -> IF m.c \in VisSet(h[m.i]) THEN [ok |-> TRUE, val |-> h[m.i].nm[m.c]]
                            ELSE [ok |-> FALSE, cls |-> "ColumnNotFoundError"]
      [] m.v = "equiv" ->
            LET L == RunSeq(h, h[m.i], m.lhs, n)
                R == RunSeq(h, h[m.i], m.rhs, n)
            IN IF ~L.ok \/ ~R.ok THEN [ok |-> FALSE, cls |-> "UNDEF"]
               ELSE [ok |-> TRUE, val |-> [lo |-> Obs(L.t), ro |-> Obs(R.t), same |-> SameTable(L.t, R.t, m.modcols)]]

ApplyObs == /\ pend # None /\ IsObsMove(pend)
            /\ LET r == ObsValue(heap, pend, nid) IN
               hist' = IF r.ok THEN Append(hist, [m |-> pend, out |-> 0, val |-> r.val])
                       ELSE IF r.cls = "UNDEF" THEN hist
                       ELSE Append(hist, [m |-> pend, out |-> 0, err |-> r.cls])
            /\ pend' = None
            /\ UNCHANGED <<heap, nid, known, done, src>>

Apply == /\ pend # None /\ ~IsObsMove(pend)
         /\ LET r == ApplyMove(heap, pend, nid) IN
            IF r.ok
            THEN IF HasUndef(r.t) /\ ~AllowUndef
                 THEN UNCHANGED <<heap, nid, known, hist>>          \* outside the backend-independent fragment: dropped
                 ELSE /\ heap' = Append(heap, r.t)
                      /\ nid' = nid + NewCount(heap, pend)
                      /\ known' = known \cup VisSet(r.t)
                      /\ hist' = Append(hist, [m |-> pend, out |-> Len(heap) + 1, o |-> Obs(r.t)])
            ELSE IF r.cls \in {"UNDEF", "AMBIG"}
                 THEN UNCHANGED <<heap, nid, known, hist>>
                 ELSE /\ hist' = Append(hist, [m |-> pend, out |-> 0, err |-> r.cls])
                      /\ UNCHANGED <<heap, nid, known>>
         /\ pend' = None
         /\ UNCHANGED <<done, src>>

Behaviour == [src |-> src, srcnames |-> [i \in DOMAIN SrcHeaps[src] |-> SrcHeaps[src][i].name], init |-> [i \in DOMAIN SrcHeaps[src] |-> Obs(SrcHeaps[src][i])], steps |-> hist]

Finish == /\ ~done /\ pend = None /\ Len(hist) = MaxDepth
          /\ (Emit => PrintT(ToJson(Behaviour)))
          /\ done' = TRUE
          /\ UNCHANGED <<heap, nid, known, hist, pend, src>>

Next == Choose \/ Apply \/ ApplyObs \/ Finish

Spec == Init /\ [][Next]_vars

---------------------------------------------------------------------------
(* What TLC checks on the model itself *)

WF(t) == /\ VisSet(t) \subseteq Scope(t)
         /\ DOMAIN t.ty = Scope(t) /\ DOMAIN t.fk = Scope(t)
         /\ Distinct(NamesOf(t))
         /\ Distinct(t.vis)
         /\ {t.part[i] : i \in DOMAIN t.part} \subseteq Scope(t)
         /\ Len(t.pcls) = Len(t.rows) /\ Len(t.scls) = Len(t.rows)
         /\ \A r \in DOMAIN t.rows : DOMAIN t.rows[r] = Scope(t)
         /\ \A r \in 1..(Len(t.rows) - 1) : t.pcls[r] <= t.pcls[r + 1] /\ t.scls[r] <= t.scls[r + 1]

ScopeWF == \A i \in DOMAIN heap : WF(heap[i])
WF1 == \A i \in DOMAIN heap : VisSet(heap[i]) \subseteq Scope(heap[i])
WF2 == \A i \in DOMAIN heap : DOMAIN heap[i].ty = Scope(heap[i]) /\ DOMAIN heap[i].fk = Scope(heap[i])
WF3 == \A i \in DOMAIN heap : Distinct(NamesOf(heap[i]))
WF4 == \A i \in DOMAIN heap : Distinct(heap[i].vis)
WF5 == \A i \in DOMAIN heap : {heap[i].part[q] : q \in DOMAIN heap[i].part} \subseteq Scope(heap[i])
WF6 == \A i \in DOMAIN heap : Len(heap[i].pcls) = Len(heap[i].rows) /\ Len(heap[i].scls) = Len(heap[i].rows)
WF7 == \A i \in DOMAIN heap : \A r \in DOMAIN heap[i].rows : DOMAIN heap[i].rows[r] = Scope(heap[i])

HeapAppendOnly == [][\A i \in DOMAIN heap : i \in DOMAIN heap' /\ heap'[i] = heap[i]]_vars

(* the step that applies pend to heap[pend.i] and appends the result *)
Applied == pend # None /\ Len(heap') = Len(heap) + 1
(* C15: every documented equivalence holds in the model for every generated instance *)
EquivHolds == \A q \in DOMAIN hist : (hist[q].m.v = "equiv" /\ "val" \in DOMAIN hist[q]) => hist[q].val.same
(* observation actions never change the heap *)
ObsPure == [][(pend # None /\ IsObsMove(pend)) => heap' = heap]_vars
In  == heap[pend.i]
Out == heap'[Len(heap')]
VisData(t) == [r \in DOMAIN t.rows |-> [i \in DOMAIN t.vis |-> t.rows[r][t.vis[i]]]]
DataOf(t, cs) == [r \in DOMAIN t.rows |-> [i \in DOMAIN cs |-> t.rows[r][cs[i]]]]
IsSubSeqOf(a, b) == \E f \in [DOMAIN a -> DOMAIN b] :
                        (\A i \in DOMAIN a : a[i] = b[f[i]]) /\ (\A i, j \in DOMAIN a : i < j => f[i] < f[j])

(* select / drop / rename / group_by / ungroup change no data: every column still in scope keeps its cells *)
RowPreserving ==
    [][(Applied /\ pend.v \in {"select", "drop", "rename", "group_by", "ungroup"})
        => (Scope(Out) = Scope(In) /\ Out.rows = In.rows)]_vars
(* mutate: columns not assigned keep their data; row count unchanged *)
MutateFrame ==
    [][(Applied /\ pend.v = "mutate")
        => (Len(Out.rows) = Len(In.rows)
            /\ \A r \in DOMAIN In.rows : \A c \in Scope(In) : Out.rows[r][c] = In.rows[r][c])]_vars
(* filter and slice_head return a subsequence of their input; filter keeps a row iff ... (by construction) *)
FilterSliceSubseq ==
    [][(Applied /\ pend.v \in {"filter", "slice_head"})
        => (Len(Out.rows) <= Len(In.rows) /\ Scope(Out) = Scope(In))]_vars
(* summarize: exactly one row when ungrouped; never more rows than the input otherwise *)
SummarizeRows ==
    [][(Applied /\ pend.v = "summarize")
        => (IF In.part = <<>> THEN Len(Out.rows) = 1 ELSE Len(Out.rows) <= Len(In.rows))
           /\ Out.part = <<>>]_vars
(* arrange permutes rows *)
ArrangePermutes ==
    [][(Applied /\ pend.v = "arrange") => Len(Out.rows) = Len(In.rows)]_vars

(* MetaAgree: the incremental metadata update transcribed from Cache.update (CacheModel.tla) yields the column *)
(* list of the denotational table value, for every verb application of every behaviour                       *)
RefName(t, r) == IF r.k = "col" THEN t.nm[r.id] ELSE r.n
CmOf(t) == [CmSource(NamesOf(t)) EXCEPT !.part = [q \in DOMAIN t.part |-> t.nm[t.part[q]]]]
CmApply(m, t, h) ==
    CASE m.v = "select"    -> CmSelect(CmOf(t), [q \in DOMAIN m.cs |-> RefName(t, m.cs[q])])
      [] m.v = "drop"      -> CmDrop(CmOf(t), [q \in DOMAIN m.cs |-> RefName(t, m.cs[q])])
      [] m.v = "rename"    -> CmRename(CmOf(t), [q \in DOMAIN m.m |-> <<RefName(t, m.m[q].c), m.m[q].n>>])
      [] m.v = "mutate"    -> CmMutate(CmOf(t), [q \in DOMAIN m.kv |-> m.kv[q].n])
      [] m.v = "summarize" -> CmSummarize(CmOf(t), [q \in DOMAIN m.kv |-> m.kv[q].n])
      [] m.v = "group_by"  -> CmGroupBy(CmOf(t), [q \in DOMAIN m.cs |-> RefName(t, m.cs[q])], m.add)
      [] m.v = "ungroup"   -> CmUngroup(CmOf(t))
      [] m.v = "union"     -> CmUnion(CmOf(t), CmOf(h[m.j]))
      [] OTHER             -> CmOf(t)
MetaAgree ==
    [][(Applied /\ pend.v \in {"select", "rename", "mutate", "summarize", "group_by", "ungroup", "filter", "arrange", "slice_head", "union"}
                /\ (pend.v = "select" => \A q \in DOMAIN pend.cs : pend.cs[q].k # "col" \/ pend.cs[q].id \in VisSet(In)))
        => (NamesOf(Out) = CmApply(pend, In, heap).names
            /\ [q \in DOMAIN Out.part |-> Out.nm[Out.part[q]]] = CmApply(pend, In, heap).part)]_vars


=============================================================================
