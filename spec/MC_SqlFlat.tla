----------------------------- MODULE MC_SqlFlat -----------------------------
(***************************************************************************)
(* Design-level exploration of the SQL accumulator: every order of the     *)
(* verbs of a small alphabet, each step either folded into the current     *)
(* SELECT (the catalogue Rq accepts it) or routed through a subquery (as   *)
(* an alias() would allow).  Invariant FlatCorrect: the accumulated query, *)
(* evaluated in SQL's logical order, equals the sequential meaning.        *)
(* No code runs here; counterexamples are predictions that are then        *)
(* replayed on SQLite (C08).                                               *)
(***************************************************************************)
EXTENDS SqlFlat, Sources, Json

CONSTANTS MaxDepth, SrcSel, EmitPaths, WithAlias, StaleRefs     \* WithAlias: explicit alias() moves and the marker search of pipe/pipeable.py check_subquery

(* al: the most recent explicit alias() not yet shadowed by a SubqueryMarker: <<>> or <<[t |-> table at the alias, ms |-> verbs applied since]>> *)
(* ck: column kinds as recorded in the Cache; uk: kinds carried by the Col objects the user holds (= kind at creation, never  *)
(* reset); marked: a SubqueryMarker has been inserted on this path.  t.fk stays the TRUE kind (what SQL's evaluation order sees) *)
(* StaleRefs = TRUE : the code before fix F16 (verb arguments keep the user's Col objects, so their kinds may be stale);        *)
(* StaleRefs = FALSE: the code as repaired (preprocess_arg replaces every Col by the current table's column): the kinds an      *)
(* expression carries are the Cache's.  Only the verbs re-accumulated above a marker at an EARLIER alias keep their old kinds.  *)
VARIABLES t, q, c, nid, steps, trace, src, reported, al, ck, uk, marked
vars == <<t, q, c, nid, steps, trace, src, reported, al, ck, uk, marked>>

Moves(tt) ==
    LET iv == VisOfTy(tt, "int")
        a  == IF "a" \in VisNames(tt) THEN <<ByName(tt)["a"]>> ELSE <<>>
        b  == IF "b" \in VisNames(tt) THEN <<ByName(tt)["b"]>> ELSE <<>>
        g  == IF "g" \in VisNames(tt) THEN <<ByName(tt)["g"]>> ELSE <<>>
        x  == IF "x" \in VisNames(tt) THEN <<ByName(tt)["x"]>> ELSE <<>>
        w  == IF "w" \in VisNames(tt) THEN <<ByName(tt)["w"]>> ELSE <<>>
        s  == IF "s" \in VisNames(tt) THEN <<ByName(tt)["s"]>> ELSE <<>>
        o2 == IF a # <<>> /\ b # <<>> THEN <<Ord(Col(b[1]), FALSE, "first"), Ord(Col(a[1]), TRUE, "last")>> ELSE <<>>
        fresh(n) == n \notin VisNames(tt)
    IN  (IF b # <<>> /\ fresh("x") THEN <<MMutate(1, <<KV("x", Fn2("add", Col(b[1]), LitI(1)))>>)>> ELSE <<>>)
        \o (IF b # <<>> /\ fresh("w") THEN <<MMutate(1, <<KV("w", Agg("sum", Col(b[1])))>>)>> ELSE <<>>)
        \o (IF o2 # <<>> /\ fresh("w") THEN <<MMutate(1, <<KV("w", Win("row_number", <<>>, o2))>>)>> ELSE <<>>)
        \o (IF s # <<>> /\ fresh("w") THEN <<MMutate(1, <<KV("w", Win("rank", <<>>, <<Ord(Col(s[1]), TRUE, "last")>>))>>)>> ELSE <<>>)
        \o (IF w # <<>> /\ fresh("y") THEN <<MMutate(1, <<KV("y", Fn2("add", Col(w[1]), LitI(1)))>>)>> ELSE <<>>)
        \o (IF s # <<>> /\ fresh("y") THEN <<MMutate(1, <<KV("y", Fn2("mul", Col(s[1]), LitI(2)))>>)>> ELSE <<>>)
        \o MapS(b, LAMBDA cc : MFilter(1, <<Fn2("gt", Col(cc), LitI(0))>>))
        \o MapS(x, LAMBDA cc : MFilter(1, <<Fn2("gt", Col(cc), LitI(2))>>))
        \o MapS(w, LAMBDA cc : MFilter(1, <<Fn2("le", Col(cc), LitI(3))>>))
        \o MapS(s, LAMBDA cc : MFilter(1, <<Fn2("gt", Col(cc), LitI(1))>>))
        \o (IF o2 # <<>> THEN <<MArrange(1, o2)>> ELSE <<>>)
        \o MapS(s, LAMBDA cc : MArrange(1, <<Ord(Col(cc), FALSE, "first")>>))
        \o (IF tt.part = <<>> THEN <<MSlice(1, 2, 0), MSlice(1, 2, 1)>> ELSE <<>>)
        \o MapS(g, LAMBDA cc : MGroupBy(1, <<Col(cc)>>, FALSE))
        \o (IF tt.part # <<>> THEN <<MUngroup(1)>> ELSE <<>>)
        \o (IF b # <<>> /\ fresh("s") THEN <<MSummarize(1, <<KV("s", Agg("sum", Col(b[1])))>>)>> ELSE <<>>)
        \o (IF fresh("n") THEN <<MSummarize(1, <<KV("n", Len0)>>)>> ELSE <<>>)
        \o MapS(s, LAMBDA cc : MSummarize(1, <<KV("z", Agg("max", Col(cc)))>>))
        \o (IF Len(tt.vis) >= 2 THEN <<MDrop(1, <<Col(tt.vis[1])>>)>> ELSE <<>>)
        \o (IF WithAlias /\ (al = <<>> \/ al[1].ms # <<>>) THEN <<MAlias(1, "al", TRUE)>> ELSE <<>>)

ApplyOn(tt, m, n) ==
    CASE m.v = "mutate"     -> Mutate(tt, m.kv, n)
      [] m.v = "filter"     -> Filter(tt, m.ps)
      [] m.v = "drop"       -> Drop(tt, m.cs)
      [] m.v = "arrange"    -> Arrange(tt, m.os)
      [] m.v = "slice_head" -> SliceHead(tt, m.n, m.k)
      [] m.v = "group_by"   -> GroupBy(tt, m.cs, m.add)
      [] m.v = "ungroup"    -> Ungroup(tt)
      [] m.v = "summarize"  -> Summarize(tt, m.kv, n)

NewIds(m) == IF m.v \in {"mutate", "summarize"} THEN Len(m.kv) ELSE 0
AllE(tt) == [tt EXCEPT !.fk = [x \in Scope(tt) |-> "e"], !.cst = {}]      \* what a SubqueryMarker does to the column kinds (and const-ness)

(* check_subquery: the marker is put at the most recent alias and the verbs applied since are re-accumulated above it *)
RECURSIVE Refold(_, _, _)
Refold(st, ms, i) ==      \* st = [t, q, c]
    IF i > Len(ms) THEN st
    ELSE LET m == ms[i].m
             r == ApplyOn(st.t, m, ms[i].nid)
         IN Refold([t |-> r.t, q |-> Acc(st.q, m, ms[i].nid, r.t), c |-> CsUpdate(st.c, st.t, m)], ms, i + 1)
AboveAlias == LET b == AllE(al[1].t) IN Refold([t |-> b, q |-> Q0(b), c |-> Cs0], al[1].ms, 1)

Init == /\ src \in DOMAIN SrcSel /\ t = SrcTables[SrcSel[src]]
        /\ q = Q0(t) /\ c = Cs0 /\ nid = 100 /\ steps = 0 /\ trace = <<>> /\ reported = FALSE /\ al = <<>>
        /\ ck = [x \in Scope(t) |-> "e"] /\ uk = [x \in Scope(t) |-> "e"] /\ marked = FALSE

(* the accumulated query, evaluated in SQL's order, differs from the sequential meaning (where that is determined) *)
Bad == t.sdef /\ ~SameVisible(FlatEval(q), t)

AllEk(tt) == [x \in Scope(tt) |-> "e"]
NewKinds(m, ek, n, scope) ==      \* kinds of the columns a mutate / summarize creates, from the kinds its expressions carry
    IF m.v \in {"mutate", "summarize"} THEN [i \in n..(n + Len(m.kv) - 1) |-> KindFrom(m.kv[i - n + 1].e, ek, m.v = "mutate", scope)]
    ELSE <<>>

Step == /\ steps < MaxDepth /\ ~Bad
        /\ LET ms == Moves(t) IN
           \E j \in DOMAIN ms :
              LET m    == ms[j]
                  ek0  == IF StaleRefs THEN uk ELSE ck
                  need == Rq2(c, t, ck, ek0, m)                                  \* first check: the verb as the user wrote it
                  A    == IF al # <<>> /\ need # "" THEN AboveAlias ELSE [t |-> t, q |-> q, c |-> c]
                  \* Cache rebuilt above a marker at the earlier alias: columns below it are element-wise, the verbs re-applied
                  \* above it still carry the user's Col objects, so the columns they define keep the kind computed from those
                  ckA  == [x \in Scope(t) |-> IF al # <<>> /\ x \in Scope(al[1].t) THEN "e" ELSE ek0[x]]
                  via  == al # <<>> /\ need # "" /\ Rq2(A.c, A.t, ckA, ckA, m) = ""     \* second check: expressions re-pointed to that Cache
                  tin  == IF need = "" THEN t ELSE IF via THEN A.t ELSE AllE(t)
                  qin  == IF need = "" THEN q ELSE IF via THEN A.q ELSE Q0(tin)
                  cin  == IF need = "" THEN c ELSE IF via THEN A.c ELSE Cs0
                  ckin == IF need = "" THEN ck ELSE IF via THEN ckA ELSE AllEk(t)
                  ekin == IF need = "" THEN ek0 ELSE ckin                          \* a verb that got a marker is re-pointed to the new Cache
                  r    == ApplyOn(tin, m, nid)
                  nk   == NewKinds(m, ekin, nid, Scope(t))
              IN IF m.v = "alias"
                 THEN /\ al' = <<[t |-> t, ms |-> <<>>]>>
                      /\ trace' = Append(trace, [m |-> m, subquery |-> "", via |-> FALSE])
                      /\ UNCHANGED <<t, q, c, nid, ck, uk, marked>>
                 ELSE /\ r.ok /\ ~HasUndef(r.t)
                      /\ (need # "" /\ ~via) => Rq2(Cs0, AllE(t), AllEk(t), AllEk(t), m) = ""      \* alias() directly before the verb always unblocks it
                      /\ t' = r.t
                      /\ q' = Acc(qin, m, nid, r.t)
                      /\ c' = CsUpdate(cin, tin, m)
                      /\ nid' = nid + NewIds(m)
                      /\ ck' = [x \in Scope(r.t) |-> IF x \in DOMAIN nk THEN nk[x] ELSE ckin[x]]
                      /\ uk' = [x \in DOMAIN uk \cup DOMAIN nk |-> IF x \in DOMAIN nk THEN nk[x] ELSE uk[x]]
                      /\ marked' = (marked \/ need # "")
                      /\ trace' = Append(trace, [m |-> m, subquery |-> IF via THEN "" ELSE need, via |-> via])
                      /\ al' = IF need # "" THEN <<>>
                               ELSE IF al # <<>> THEN <<[al[1] EXCEPT !.ms = Append(@, [m |-> m, nid |-> nid])]>> ELSE al
        /\ steps' = steps + 1
        /\ UNCHANGED <<src, reported>>

(* as long as no marker was inserted the Cache kinds are the true kinds (the two derivations agree) *)
KindsAgree == ~marked => \A x \in Scope(t) : ck[x] = t.fk[x]
(* the recorded kinds are never less conservative than the true ones *)
KindsConservative == \A x \in Scope(t) : (t.fk[x] # "e") => (ck[x] # "e")

(* every counterexample is emitted (not only the first): a prediction about the code that is then replayed on SQLite *)
Report == /\ Bad /\ ~reported
          /\ PrintT(ToJson([srcname |-> SrcTables[SrcSel[src]].name, moves |-> [i \in DOMAIN trace |-> trace[i].m],
                            subquery |-> [i \in DOMAIN trace |-> trace[i].subquery], via |-> [i \in DOMAIN trace |-> trace[i].via]]))
          /\ reported' = TRUE
          /\ UNCHANGED <<t, q, c, nid, steps, trace, src, al, ck, uk, marked>>

(* conformance of the transcribed catalogue: every explored verb order with the decision Rq takes at each step, replayed on SQLite *)
Finish == /\ EmitPaths /\ steps = MaxDepth /\ ~Bad /\ ~reported
          /\ PrintT(ToJson([srcname |-> SrcTables[SrcSel[src]].name, moves |-> [i \in DOMAIN trace |-> trace[i].m],
                            subquery |-> [i \in DOMAIN trace |-> trace[i].subquery], via |-> [i \in DOMAIN trace |-> trace[i].via], path |-> TRUE, sdef |-> (t.sdef /\ t.pdef)]))
          /\ reported' = TRUE
          /\ UNCHANGED <<t, q, c, nid, steps, trace, src, al, ck, uk, marked>>

Next == Step \/ Report \/ Finish

FlatCorrect == ~Bad

(* verbs of the never-needs class are never routed through a subquery: element-wise mutate / filter, select, rename, arrange, *)
(* one grouped summarize, a final slice_head                                                                                *)
View == IF EmitPaths THEN <<t, q, c, nid, steps, reported, trace, al, ck, uk>> ELSE <<t, q, c, nid, steps, reported, al, ck, uk>>

=============================================================================
