----------------------------- MODULE MC_SqlFlat -----------------------------
(***************************************************************************)
(* Design-level exploration of the SQL accumulator: every order of the     *)
(* verbs of a small alphabet, each step either folded into the current     *)
(* SELECT (the catalogue Rq accepts it) or routed through a subquery (as   *)
(* an alias() would allow).  Invariant FlatCorrect: the accumulated query, *)
(* evaluated in SQL's logical order, equals the sequential meaning.        *)
(* No code runs here; counterexamples are predictions that are then        *)
(* replayed on SQLite (C08).                                               *)
(***************************************************************************)
EXTENDS SqlFlat, Sources, Json

CONSTANTS MaxDepth, SrcSel, EmitPaths

VARIABLES t, q, c, nid, steps, trace, src, reported
vars == <<t, q, c, nid, steps, trace, src, reported>>

Moves(tt) ==
    LET iv == VisOfTy(tt, "int")
        a  == IF "a" \in VisNames(tt) THEN <<ByName(tt)["a"]>> ELSE <<>>
        b  == IF "b" \in VisNames(tt) THEN <<ByName(tt)["b"]>> ELSE <<>>
        g  == IF "g" \in VisNames(tt) THEN <<ByName(tt)["g"]>> ELSE <<>>
        x  == IF "x" \in VisNames(tt) THEN <<ByName(tt)["x"]>> ELSE <<>>
        w  == IF "w" \in VisNames(tt) THEN <<ByName(tt)["w"]>> ELSE <<>>
        s  == IF "s" \in VisNames(tt) THEN <<ByName(tt)["s"]>> ELSE <<>>
        o2 == IF a # <<>> /\ b # <<>> THEN <<Ord(Col(b[1]), FALSE, "first"), Ord(Col(a[1]), TRUE, "last")>> ELSE <<>>
        fresh(n) == n \notin VisNames(tt)
    IN  (IF b # <<>> /\ fresh("x") THEN <<MMutate(1, <<KV("x", Fn2("add", Col(b[1]), LitI(1)))>>)>> ELSE <<>>)
        \o (IF b # <<>> /\ fresh("w") THEN <<MMutate(1, <<KV("w", Agg("sum", Col(b[1])))>>)>> ELSE <<>>)
        \o (IF o2 # <<>> /\ fresh("w") THEN <<MMutate(1, <<KV("w", Win("row_number", <<>>, o2))>>)>> ELSE <<>>)
        \o (IF s # <<>> /\ fresh("w") THEN <<MMutate(1, <<KV("w", Win("rank", <<>>, <<Ord(Col(s[1]), TRUE, "last")>>))>>)>> ELSE <<>>)
        \o (IF w # <<>> /\ fresh("y") THEN <<MMutate(1, <<KV("y", Fn2("add", Col(w[1]), LitI(1)))>>)>> ELSE <<>>)
        \o (IF s # <<>> /\ fresh("y") THEN <<MMutate(1, <<KV("y", Fn2("mul", Col(s[1]), LitI(2)))>>)>> ELSE <<>>)
        \o MapS(b, LAMBDA cc : MFilter(1, <<Fn2("gt", Col(cc), LitI(0))>>))
        \o MapS(x, LAMBDA cc : MFilter(1, <<Fn2("gt", Col(cc), LitI(2))>>))
        \o MapS(w, LAMBDA cc : MFilter(1, <<Fn2("le", Col(cc), LitI(3))>>))
        \o MapS(s, LAMBDA cc : MFilter(1, <<Fn2("gt", Col(cc), LitI(1))>>))
        \o (IF o2 # <<>> THEN <<MArrange(1, o2)>> ELSE <<>>)
        \o MapS(s, LAMBDA cc : MArrange(1, <<Ord(Col(cc), FALSE, "first")>>))
        \o (IF tt.part = <<>> THEN <<MSlice(1, 2, 0), MSlice(1, 2, 1)>> ELSE <<>>)
        \o MapS(g, LAMBDA cc : MGroupBy(1, <<Col(cc)>>, FALSE))
        \o (IF tt.part # <<>> THEN <<MUngroup(1)>> ELSE <<>>)
        \o (IF b # <<>> /\ fresh("s") THEN <<MSummarize(1, <<KV("s", Agg("sum", Col(b[1])))>>)>> ELSE <<>>)
        \o (IF fresh("n") THEN <<MSummarize(1, <<KV("n", Len0)>>)>> ELSE <<>>)
        \o MapS(s, LAMBDA cc : MSummarize(1, <<KV("z", Agg("max", Col(cc)))>>))
        \o (IF Len(tt.vis) >= 2 THEN <<MDrop(1, <<Col(tt.vis[1])>>)>> ELSE <<>>)

ApplyOn(tt, m, n) ==
    CASE m.v = "mutate"     -> Mutate(tt, m.kv, n)
      [] m.v = "filter"     -> Filter(tt, m.ps)
      [] m.v = "drop"       -> Drop(tt, m.cs)
      [] m.v = "arrange"    -> Arrange(tt, m.os)
      [] m.v = "slice_head" -> SliceHead(tt, m.n, m.k)
      [] m.v = "group_by"   -> GroupBy(tt, m.cs, m.add)
      [] m.v = "ungroup"    -> Ungroup(tt)
      [] m.v = "summarize"  -> Summarize(tt, m.kv, n)

NewIds(m) == IF m.v \in {"mutate", "summarize"} THEN Len(m.kv) ELSE 0
AllE(tt) == [tt EXCEPT !.fk = [x \in Scope(tt) |-> "e"]]      \* what a SubqueryMarker does to the column kinds

Init == /\ src \in DOMAIN SrcSel /\ t = SrcTables[SrcSel[src]]
        /\ q = Q0(t) /\ c = Cs0 /\ nid = 100 /\ steps = 0 /\ trace = <<>> /\ reported = FALSE

(* the accumulated query, evaluated in SQL's order, differs from the sequential meaning (where that is determined) *)
Bad == t.sdef /\ ~SameVisible(FlatEval(q), t)

Step == /\ steps < MaxDepth /\ ~Bad
        /\ LET ms == Moves(t) IN
           \E j \in DOMAIN ms :
              LET m    == ms[j]
                  need == Rq(c, t, m)
                  tin  == IF need = "" THEN t ELSE AllE(t)
                  r    == ApplyOn(tin, m, nid)
              IN /\ r.ok /\ ~HasUndef(r.t)
                 /\ t' = r.t
                 /\ q' = Acc(IF need = "" THEN q ELSE Q0(tin), m, nid, r.t)
                 /\ c' = CsUpdate(IF need = "" THEN c ELSE Cs0, tin, m)
                 /\ nid' = nid + NewIds(m)
                 /\ trace' = Append(trace, [m |-> m, subquery |-> need])
        /\ steps' = steps + 1
        /\ UNCHANGED <<src, reported>>

(* every counterexample is emitted (not only the first): a prediction about the code that is then replayed on SQLite *)
Report == /\ Bad /\ ~reported
          /\ PrintT(ToJson([srcname |-> SrcTables[SrcSel[src]].name, moves |-> [i \in DOMAIN trace |-> trace[i].m],
                            subquery |-> [i \in DOMAIN trace |-> trace[i].subquery]]))
          /\ reported' = TRUE
          /\ UNCHANGED <<t, q, c, nid, steps, trace, src>>

(* conformance of the transcribed catalogue: every explored verb order with the decision Rq takes at each step, replayed on SQLite *)
Finish == /\ EmitPaths /\ steps = MaxDepth /\ ~Bad /\ ~reported
          /\ PrintT(ToJson([srcname |-> SrcTables[SrcSel[src]].name, moves |-> [i \in DOMAIN trace |-> trace[i].m],
                            subquery |-> [i \in DOMAIN trace |-> trace[i].subquery], path |-> TRUE]))
          /\ reported' = TRUE
          /\ UNCHANGED <<t, q, c, nid, steps, trace, src>>

Next == Step \/ Report \/ Finish

FlatCorrect == ~Bad

(* verbs of the never-needs class are never routed through a subquery: element-wise mutate / filter, select, rename, arrange, *)
(* one grouped summarize, a final slice_head                                                                                *)
View == IF EmitPaths THEN <<t, q, c, nid, steps, reported, trace>> ELSE <<t, q, c, nid, steps, reported>>

=============================================================================
