------------------------------ MODULE MC_Core -------------------------------
(* Linear single-table pipelines over the row-level verbs (first alphabet). *)
EXTENDS Pipeline, Sources

CONSTANT SrcSel      \* which sources to start from (a sequence of indices into SrcTables)

SrcHeapsCore == [k \in DOMAIN SrcSel |-> <<SrcTables[SrcSel[k]]>>]

IntExprs(t) ==
    LET iv == VisOfTy(t, "int")
        hv == Take(HidOfTy(t, "int"), 1)
        rs == Take(iv, 3) \o hv
    IN  Flat(MapS(rs, LAMBDA c : <<Col(c), Fn2("add", Col(c), LitI(1)), Fn2("mul", Col(c), LitI(-2)),
                                   Fn2("floordiv", Col(c), LitI(2)), Fn2("mod", Col(c), LitI(3))>>))
        \o MapS(Take(PairsOf(Take(iv, 2)), 2), LAMBDA p : Fn2("sub", Col(p[1]), Col(p[2])))

Preds(t) ==
    LET iv == Take(VisOfTy(t, "int"), 2)
        bv == Take(VisOfTy(t, "bool"), 1)
        hv == Take(HidOfTy(t, "int"), 1)
    IN  Flat(MapS(iv, LAMBDA c : <<Fn2("gt", Col(c), LitI(1)), Fn1("is_null", Col(c))>>))
        \o MapS(hv, LAMBDA c : Fn2("ge", Col(c), LitI(2)))          \* a hidden column through its table-bound reference
        \o MapS(bv, LAMBDA c : Col(c))
        \o MapS(bv, LAMBDA c : Fn1("not", Col(c)))
        \o MapS(Take(PairsOf(iv), 1), LAMBDA p : Fn2("le", Col(p[1]), Col(p[2])))

MovesCore(h, kn) ==
    LET i  == Len(h)
        t  == h[i]
        ie == IntExprs(t)
        ps == Preds(t)
        iv == VisOfTy(t, "int")
        nm1 == IF Len(t.vis) > 0 THEN t.nm[t.vis[1]] ELSE "x"
    IN  MapS(ie, LAMBDA e : MMutate(i, <<KV("x", e)>>))
        \o MapS(Take(ie, 4), LAMBDA e : MMutate(i, <<KV(nm1, e)>>))                  \* overwrite the first column
        \o MapS(ps, LAMBDA p : MFilter(i, <<p>>))
        \o (IF Len(t.vis) >= 2 THEN MapS(t.vis, LAMBDA c : MDrop(i, <<Col(c)>>)) ELSE <<>>)     \* a table without columns has no documented meaning
        \o (IF Len(t.vis) >= 2 THEN <<MSelect(i, <<Col(t.vis[2]), Col(t.vis[1])>>),
                                     MRename(i, <<[c |-> CN(t.nm[t.vis[1]]), n |-> t.nm[t.vis[2]]],
                                                  [c |-> CN(t.nm[t.vis[2]]), n |-> t.nm[t.vis[1]]]>>)>> ELSE <<>>)
        \o MapS(Take(iv, 2), LAMBDA c : MArrange(i, <<Ord(Col(c), TRUE, "last")>>))
        \o <<MSlice(i, 2, 1), MSlice(i, 3, 0)>>

=============================================================================
