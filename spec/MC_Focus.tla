------------------------------ MODULE MC_Focus ------------------------------
(***************************************************************************)
(* Focus alphabets for linear single-table pipelines:                      *)
(*   MovesAgg  - group_by / summarize / aggregates and their contexts (C04)*)
(*   MovesWin  - arrange / window functions and their contexts (C05)       *)
(***************************************************************************)
EXTENDS Pipeline, Sources

CONSTANT SrcSel
SrcHeapsCore == [k \in DOMAIN SrcSel |-> <<SrcTables[SrcSel[k]]>>]

Summarized(t) == \E c \in VisSet(t) : t.fk[c] = "a"
NameFree(t, n) == n \notin VisNames(t)

---------------------------------------------------------------------------
AggExprs(t) ==
    LET iv == Take(SelectSeq(VisOfTy(t, "int"), LAMBDA c : c \notin {t.part[q] : q \in DOMAIN t.part}), 2)
        bv == Take(VisOfTy(t, "bool"), 1)
        c1 == IF iv = <<>> THEN <<>> ELSE <<iv[1]>>
        pr == IF Len(iv) >= 2 THEN <<Fn2("gt", Col(iv[2]), LitI(0))>> ELSE <<>>
        gp == Take(t.part, 1)
    IN  Flat(MapS(c1, LAMBDA c : <<Agg("sum", Col(c)), Agg("mean", Col(c)), Agg("min", Col(c)), Agg("max", Col(c)), Agg("count", Col(c)),
                                   Fn2("add", Agg("sum", Col(c)), LitI(1)),
                                   Agg("sum", Fn2("mul", Col(c), LitI(2)))>>))
        \o <<Len0>>
        \o Flat(MapS(bv, LAMBDA c : <<Agg("any", Col(c)), Agg("all", Col(c)), Agg("sum", Col(c))>>))
        \o Flat(MapS(c1, LAMBDA c : Flat(MapS(pr, LAMBDA p : <<AggF("sum", Col(c), p), AggF("count", Col(c), p), Len0F(p),
                                                                  AggF("max", Col(c), p),
                                                                  \* a list of conditions: all of them must hold
                                                                  AggF2("sum", Col(c), p, Fn1("is_not_null", Col(c))),
                                                                  AggF2("count", Col(c), p, Fn2("lt", Col(c), LitI(3))),
                                                                  AggF2("min", Col(c), Fn2("ge", Col(c), LitI(0)), p)>>))))
        \o Flat(MapS(c1, LAMBDA c : Flat(MapS(gp, LAMBDA g :
              <<Fn2("add", Col(g), Agg("max", Col(c))),
                Fn2("add", Agg("sum", Col(c)), Cast(Col(g), "float")),
                Case1D(Fn2("gt", Col(g), LitI(1)), Agg("sum", Col(c)), LitI(0)),
                Case1D(Fn1("is_null", Col(g)), LitI(-1), Agg("count", Col(c)))>>
              \* a (non-constant) grouping column in one branch, an aggregate in the other: FunctionTypeError
              \o (IF g \notin t.cst THEN <<Case1D(Fn2("gt", Col(g), LitI(1)), Col(g), Agg("sum", Col(c)))>> ELSE <<>>)))))

MovesAgg(h, kn) ==
    LET i  == Len(h)
        t  == h[i]
        iv == VisOfTy(t, "int")
        bv == VisOfTy(t, "bool")
        ae == AggExprs(t)
        gname == IF t.part # <<>> THEN <<t.nm[t.part[1]]>> ELSE <<>>
    IN
    IF Summarized(t)
    THEN \* contexts after the summarize
         Flat(MapS(Take(iv, 2), LAMBDA c : <<MFilter(i, <<Fn2("gt", Col(c), LitI(1))>>),
                                              MFilter(i, <<Fn1("is_null", Col(c))>>),
                                              MMutate(i, <<KV("y", Fn2("add", Col(c), LitI(1)))>>),
                                              MArrange(i, <<Ord(Col(c), FALSE, "first")>>)>>))
         \o MapS(Take(iv, 1), LAMBDA c : MSummarize(i, <<KV("z", Agg("sum", Col(c)))>>))
         \o <<MSummarize(i, <<KV("n2", Len0)>>)>>
         \o (IF Len(t.vis) >= 2 THEN <<MSelect(i, <<Col(t.vis[Len(t.vis)])>>)>> ELSE <<>>)
    ELSE IF t.part # <<>>
    THEN MapS(ae, LAMBDA e : MSummarize(i, <<KV("s", e)>>))
         \* grouping again by a column the table is grouped by already (alone / next to a new one): it counts once
         \o (IF Len(t.part) = 1 THEN <<MGroupBy(i, <<Col(t.part[1])>>, TRUE)>>
                                      \o MapS(Take(SelectSeq(iv, LAMBDA c : c # t.part[1]), 1), LAMBDA c : MGroupBy(i, <<Col(c), Col(t.part[1])>>, TRUE)) ELSE <<>>)
         \o (IF Len(ae) >= 2 THEN <<MSummarize(i, <<KV("s", ae[1]), KV("n", Len0)>>)>> ELSE <<>>)
         \* an aggregate named like a grouping column replaces it in the result
         \o (IF ae # <<>> THEN <<MSummarize(i, <<KV(gname[1], ae[1])>>), MSummarize(i, <<KV("s", Len0), KV(gname[1], ae[1])>>)>> ELSE <<>>)
         \o <<MSummarize(i, <<>>)>>
         \o MapS(Take(ae, 2), LAMBDA e : MMutate(i, <<KV("w", e)>>))
         \o <<MUngroup(i)>>
         \o MapS(Take(iv, 1), LAMBDA c : MFilter(i, <<Fn2("gt", Col(c), LitI(0))>>))
    ELSE \* ungrouped, not summarized yet
         MapS(Take(ae, 9), LAMBDA e : MSummarize(i, <<KV("s", e)>>))
         \o (IF Len(ae) >= 2 THEN <<MSummarize(i, <<KV("s", ae[1]), KV("n", Len0)>>)>> ELSE <<>>)
         \o MapS(SelectSeq(iv, LAMBDA c : t.nm[c] = "g"), LAMBDA c : MGroupBy(i, <<Col(c)>>, FALSE))
         \o MapS(Take(bv, 1), LAMBDA c : MGroupBy(i, <<Col(c)>>, FALSE))
         \o (IF Len(bv) >= 1 /\ \E c \in VisSet(t) : t.nm[c] = "g"
             THEN <<MGroupBy(i, <<CN("g"), Col(bv[1])>>, FALSE)>> ELSE <<>>)
         \o (IF NameFree(t, "k") /\ Len(iv) >= 1
             THEN <<MMutate(i, <<KV("k", Fn2("mod", Col(iv[1]), LitI(2)))>>),
                    \* a key whose VALUES are literals but whose condition is a column: not a constant
                    MMutate(i, <<KV("k", Case1D(Fn2("gt", Col(iv[1]), LitI(1)), LitI(1), LitI(0)))>>),
                    MMutate(i, <<KV("k", Case1(Fn1("is_null", Col(iv[1])), LitI(7)))>>),
                    \* a constant key: one group (none for an empty input)
                    MMutate(i, <<KV("k", LitI(1))>>)>> ELSE <<>>)
         \o MapS(SelectSeq(iv, LAMBDA c : t.nm[c] = "k"), LAMBDA c : MGroupBy(i, <<Col(c)>>, FALSE))
         \o MapS(Take(iv, 1), LAMBDA c : MFilter(i, <<Fn2("gt", Col(c), LitI(1))>>))
         \o MapS(Take(iv, 1), LAMBDA c : MFilter(i, <<Fn2("gt", Col(c), LitI(100))>>))

---------------------------------------------------------------------------
OrdSpecs(t) ==
    LET iv == Take(VisOfTy(t, "int"), 2)
        bv == Take(VisOfTy(t, "bool"), 1)
    IN  Flat(MapS(iv, LAMBDA c : <<<<Ord(Col(c), FALSE, "first")>>, <<Ord(Col(c), TRUE, "first")>>,
                                   <<Ord(Col(c), FALSE, "last")>>, <<Ord(Col(c), TRUE, "last")>>>>))
        \o MapS(bv, LAMBDA c : <<Ord(Col(c), TRUE, "last")>>)
        \o (IF Len(iv) >= 2 THEN <<<<Ord(Col(iv[1]), TRUE, "last"), Ord(Col(iv[2]), FALSE, "first")>>,
                                    <<Ord(Col(iv[2]), FALSE, "last"), Ord(Col(iv[1]), FALSE, "first")>>>> ELSE <<>>)

WinExprs(t) ==
    LET iv == Take(VisOfTy(t, "int"), 2)
        o2 == IF Len(iv) >= 2 THEN <<<<Ord(Col(iv[1]), TRUE, "last"), Ord(Col(iv[2]), FALSE, "first")>>,
                                     <<Ord(Col(iv[2]), FALSE, "first"), Ord(Col(iv[1]), FALSE, "first")>>>> ELSE <<>>
        o1 == IF Len(iv) >= 1 THEN <<<<Ord(Col(iv[1]), FALSE, "first")>>, <<Ord(Col(iv[1]), TRUE, "last")>>>> ELSE <<>>
        x  == IF Len(iv) >= 2 THEN iv[2] ELSE IF Len(iv) = 1 THEN iv[1] ELSE 0
        gp == SelectSeq(VisOfTy(t, "int"), LAMBDA c : t.nm[c] = "g")
    IN  IF iv = <<>> THEN <<>> ELSE
        MapS(o2, LAMBDA os : Win("row_number", <<>>, os))
        \o MapS(o1 \o o2, LAMBDA os : Win("rank", <<>>, os))
        \o MapS(o1, LAMBDA os : Win("dense_rank", <<>>, os))
        \o MapS(o2, LAMBDA os : Shift(Col(x), 1, <<>>, os))
        \o MapS(Take(o2, 1), LAMBDA os : Shift(Col(x), -1, <<LitI(0)>>, os))
        \o MapS(o2, LAMBDA os : Win("cum_sum", <<Col(x)>>, os))
        \o <<Win("cum_sum", <<Col(x)>>, <<>>)>>          \* arrange=[]: the current row order (value undefined here, the query must still compile)
        \o <<Agg("sum", Col(x)), Agg("max", Col(iv[1])), Len0>>
        \o <<Win("row_number", <<>>, <<>>), Shift(Col(x), 1, <<>>, <<>>)>>
        \* the offset as a constant expression (pdt.lit(1) + 1): Polars evaluates it, a SQL back end may refuse (NotSupportedError)
        \o MapS(o2, LAMBDA os : ShiftX(Col(x), 2, <<>>, os))
        \o Flat(MapS(gp, LAMBDA g : <<WinP("row_number", <<>>, IF o2 = <<>> THEN o1[1] ELSE o2[1], <<Col(g)>>),
                                      AggP("sum", Col(x), <<Col(g)>>),
                                      WinP("cum_sum", <<Col(x)>>, IF o2 = <<>> THEN o1[1] ELSE o2[1], <<Col(g)>>)>>))

MovesWin(h, kn) ==
    LET i  == Len(h)
        t  == h[i]
        iv == VisOfTy(t, "int")
        we == WinExprs(t)
        wname == IF NameFree(t, "w") THEN "w" ELSE "w2"
    IN  MapS(OrdSpecs(t), LAMBDA os : MArrange(i, os))
        \o MapS(we, LAMBDA e : MMutate(i, <<KV(wname, e)>>))
        \o MapS(Take(iv, 2), LAMBDA c : MFilter(i, <<Fn2("gt", Col(c), LitI(0))>>))
        \o <<MSlice(i, 2, 0), MSlice(i, 2, 1), MSlice(i, 3, 2)>>
        \o MapS(SelectSeq(iv, LAMBDA c : t.nm[c] = "g"), LAMBDA c : MGroupBy(i, <<Col(c)>>, FALSE))
        \o (IF t.part # <<>> THEN <<MUngroup(i)>> ELSE <<>>)
        \o (IF Len(t.vis) >= 3 /\ t.part = <<>> THEN <<MSelect(i, <<Col(t.vis[2]), Col(t.vis[1]), Col(t.vis[Len(t.vis)])>>)>> ELSE <<>>)
        \o (IF Len(t.vis) >= 1 /\ NameFree(t, "q") THEN <<MRename(i, <<[c |-> Col(t.vis[1]), n |-> "q"]>>)>> ELSE <<>>)
        \o MapS(Take(iv, 1), LAMBDA c : MMutate(i, <<KV(t.nm[c], Fn2("add", Col(c), LitI(1)))>>))

(* a trimmed alphabet for depth 3: interplay of a fixed order, slice_head, window functions, filter *)
MovesWinS(h, kn) ==
    LET i  == Len(h)
        t  == h[i]
        iv == VisOfTy(t, "int")
        x  == IF Len(iv) >= 2 THEN iv[2] ELSE IF Len(iv) = 1 THEN iv[1] ELSE 0
        o2 == IF Len(iv) >= 2 THEN <<Ord(Col(iv[2]), FALSE, "first"), Ord(Col(iv[1]), TRUE, "last")>> ELSE <<>>
        wname == IF NameFree(t, "w") THEN "w" ELSE "w2"
    IN  IF iv = <<>> THEN <<>> ELSE
        (IF o2 # <<>> THEN <<MArrange(i, o2), MArrange(i, <<Ord(Col(iv[1]), FALSE, "last")>>)>> ELSE <<>>)
        \o <<MSlice(i, 3, 0), MSlice(i, 2, 1)>>
        \o (IF o2 # <<>> THEN <<MMutate(i, <<KV(wname, Win("row_number", <<>>, o2))>>),
                                MMutate(i, <<KV(wname, Win("cum_sum", <<Col(x)>>, o2))>>),
                                MMutate(i, <<KV(wname, Shift(Col(x), 1, <<>>, o2))>>)>> ELSE <<>>)
        \o <<MMutate(i, <<KV(wname, Agg("sum", Col(x)))>>), MMutate(i, <<KV(wname, Len0)>>),
              \* the only window function sits in the otherwise-branch / in the then-branch of a case expression
              MMutate(i, <<KV(wname, Case1D(Fn2("gt", Col(iv[1]), LitI(0)), Col(x), Agg("sum", Col(x))))>>),
              MMutate(i, <<KV(wname, Case1D(Fn2("gt", Col(iv[1]), LitI(0)), Agg("max", Col(x)), LitI(0)))>>)>>
        \o <<MFilter(i, <<Fn2("gt", Col(iv[1]), LitI(0))>>)>>
        \o MapS(SelectSeq(iv, LAMBDA c : t.nm[c] = "g"), LAMBDA c : MGroupBy(i, <<Col(c)>>, FALSE))
        \o <<MAlias(i, t.name, TRUE)>>
        \o (IF "w" \in VisNames(t) THEN <<MAlias(i, "s", FALSE)>> ELSE <<>>)      \* a plain alias(): new column identities, the same kinds of column
        \o (IF "w" \in VisNames(t) /\ t.ty[ByName(t)["w"]] = "int" THEN <<MFilter(i, <<Fn2("le", CN("w"), LitI(2))>>)>> ELSE <<>>)
        \o (IF t.part # <<>> THEN <<MSummarize(i, <<KV("s", Agg("sum", Col(x)))>>)>> ELSE <<>>)

---------------------------------------------------------------------------
(* the union of the single-table alphabets, for seeded simulation at depths BFS cannot reach *)
MovesMix(h, kn) == MovesWinS(h, kn) \o MovesAgg(h, kn) \o Take(MovesWin(h, kn), 12)

---------------------------------------------------------------------------
(* a pending grouping carried across a subquery boundary: group_by, a verb that forces a subquery, summarize / window *)
MovesGS(h, kn) ==
    LET i  == Len(h)
        t  == h[i]
        has(n) == n \in VisNames(t)
        c(n) == Col(ByName(t)[n])
    IN  \* after the summarize: keep the aggregate only (the grouping column must still cross the subquery boundary)
        IF Summarized(t) /\ has("s") /\ Len(t.vis) >= 2 THEN <<MSelect(i, <<c("s")>>)>> ELSE
        IF ~(has("a") /\ has("b")) THEN <<>> ELSE
        (IF has("g") /\ t.part = <<>> /\ ~Summarized(t) THEN <<MGroupBy(i, <<c("g")>>, FALSE)>> ELSE <<>>)
        \o (IF ~has("w") THEN <<MMutate(i, <<KV("w", Win("row_number", <<>>, <<Ord(c("b"), FALSE, "first"), Ord(c("a"), TRUE, "last")>>))>>),
                                 MMutate(i, <<KV("w", Agg("sum", c("b")))>>),
                                 \* a window function / an aggregate only in the CONDITION of a case expression
                                 MMutate(i, <<KV("w", Case1D(Fn2("gt", Win("row_number", <<>>, <<Ord(c("b"), FALSE, "first"), Ord(c("a"), TRUE, "last")>>), LitI(2)), LitI(1), LitI(0)))>>),
                                 MMutate(i, <<KV("w", Case1D(Fn2("gt", c("b"), Agg("min", c("b"))), LitI(1), LitI(0)))>>)>> ELSE <<>>)
        \o (IF has("w") THEN <<MFilter(i, <<Fn2("le", CN("w"), LitI(2))>>)>> ELSE <<>>)
        \o <<MFilter(i, <<Fn2("gt", c("b"), LitI(0))>>)>>
        \o (IF t.part = <<>> THEN <<MSlice(i, 3, 0), MSlice(i, 0, 0)>> ELSE <<>>)          \* slice_head(0) is a limit, too
        \o (IF ~Summarized(t) THEN <<MSummarize(i, <<KV("s", Agg("sum", c("b"))), KV("n", Len0)>>)>> ELSE <<>>)
        \o (IF ~Summarized(t) /\ has("w") /\ t.ty[ByName(t)["w"]] = "int" THEN <<MSummarize(i, <<KV("s", Agg("max", CN("w")))>>)>> ELSE <<>>)   \* an aggregate of the window column
        \o <<MArrange(i, <<Ord(c("b"), FALSE, "first"), Ord(c("a"), TRUE, "last")>>)>>
        \o (IF t.part # <<>> THEN <<MUngroup(i)>> ELSE <<>>)

---------------------------------------------------------------------------
(* grouping state around a summarize: group again / ungroup / window functions / a second summarize on the summarized table *)
MovesRegroup(h, kn) ==
    LET i  == Len(h)
        t  == h[i]
        has(n) == n \in VisNames(t)
        c(n) == Col(ByName(t)[n])
    IN  (IF has("g") /\ t.part = <<>> THEN <<MGroupBy(i, <<c("g")>>, FALSE)>> ELSE <<>>)
        \o (IF has("g") /\ has("s") /\ t.part = <<>> THEN <<MGroupBy(i, <<c("g"), c("s")>>, FALSE)>> ELSE <<>>)
        \o (IF t.part # <<>> THEN <<MUngroup(i)>> ELSE <<>>)
        \o (IF has("b") /\ ~has("s") THEN <<MSummarize(i, <<KV("s", Fn2("add", Agg("max", c("b")), LitI(1)))>>)>> ELSE <<>>)
        \o (IF has("s") /\ ~has("z") THEN <<MSummarize(i, <<KV("z", Agg("sum", c("s")))>>)>> ELSE <<>>)
        \o (IF has("s") /\ ~has("w") THEN <<MMutate(i, <<KV("w", Agg("sum", c("s")))>>),
                                                MMutate(i, <<KV("w", Win("rank", <<>>, <<Ord(c("s"), TRUE, "last")>>))>>)>> ELSE <<>>)
        \o (IF has("s") THEN <<MFilter(i, <<Fn2("gt", c("s"), LitI(1))>>)>> ELSE <<>>)

---------------------------------------------------------------------------
(* one table object (slice_head, alias, element-wise mutate) that several pipelines extend with a verb needing a subquery: *)
(* the subquery rewrite must not touch the shared prefix (C10), and each extension must still be accepted (C08)           *)
MovesSubq(h, kn) ==
    LET i  == Len(h)
        t  == h[i]
        has(n) == n \in VisNames(t)
        c(n) == Col(ByName(t)[n])
    IN  IF ~(has("a") /\ has("b")) THEN <<>> ELSE
        <<MArrange(i, <<Ord(c("b"), FALSE, "first"), Ord(c("a"), TRUE, "last")>>), MSlice(i, 3, 0),
          MAlias(i, t.name, TRUE), MAlias(i, "s", FALSE),
          MFilter(i, <<Fn2("gt", CN("b"), LitI(0))>>), MArrange(i, <<Ord(CN("a"), FALSE, "first")>>)>>
        \o (IF ~has("x") THEN <<MMutate(i, <<KV("x", Fn2("add", CN("b"), LitI(1)))>>)>> ELSE <<>>)
        \o (IF has("g") /\ t.part = <<>> THEN <<MGroupBy(i, <<CN("g")>>, FALSE)>> ELSE <<>>)
        \o (IF t.part # <<>> THEN <<MSummarize(i, <<KV("s", Agg("sum", CN("b")))>>)>> ELSE <<>>)

---------------------------------------------------------------------------
(* a hidden column and a visible column of the same name carried through a subquery, the hidden one referenced behind it *)
MovesHidSub(h, kn) ==
    LET i  == Len(h)
        t  == h[i]
        has(n) == n \in VisNames(t)
        c(n) == Col(ByName(t)[n])
        olda == Col(h[1].vis[1])                       \* the source's first column through its original reference
    IN  (IF has("a") /\ h[1].vis[1] \in VisSet(t) /\ Len(t.vis) >= 2 THEN <<MDrop(i, <<olda>>)>> ELSE <<>>)
        \o (IF ~has("a") /\ has("b") THEN <<MMutate(i, <<KV("a", Fn2("mul", c("b"), LitI(10)))>>)>> ELSE <<>>)
        \o (IF has("a") /\ h[1].vis[1] \in VisSet(t) /\ has("b") THEN <<MMutate(i, <<KV("a", Fn2("mul", c("b"), LitI(10)))>>)>> ELSE <<>>)
        \o (IF t.part = <<>> THEN <<MSlice(i, 3, 0)>> ELSE <<>>)
        \o <<MAlias(i, t.name, TRUE)>>
        \o (IF h[1].vis[1] \in Scope(t) THEN <<MFilter(i, <<Fn2("ge", olda, LitI(2))>>), MMutate(i, <<KV("probe", olda)>>)>> ELSE <<>>)
        \o (IF has("b") THEN <<MFilter(i, <<Fn2("gt", c("b"), LitI(0))>>)>> ELSE <<>>)
        \* a real column that carries the name a de-duplication suffix would produce
        \o (IF i = 1 /\ has("b") /\ ~has("a_1") THEN <<MMutate(i, <<KV("a_1", c("b"))>>)>> ELSE <<>>)
        \* overwrite the visible a once more, reading the hidden a first and the visible a second
        \o (IF has("a") /\ h[1].vis[1] \in Scope(t) /\ h[1].vis[1] \notin VisSet(t)
            THEN <<MMutate(i, <<KV("a", Fn2("add", Fn2("mul", olda, LitI(2)), c("a")))>>)>> ELSE <<>>)

---------------------------------------------------------------------------
(* tall tables: a short alphabet that is cheap to evaluate on > 100 rows *)
MovesTall(h, kn) ==
    LET i == Len(h)
        t == h[i]
        c(n) == Col(ByName(t)[n])
        has(n) == n \in VisNames(t)
    IN  (IF has("a") /\ has("b") THEN
            <<MMutate(i, <<KV("x", Fn2("add", c("a"), c("b")))>>), MMutate(i, <<KV("a", Fn2("fill_null", c("a"), LitI(0)))>>),
              MFilter(i, <<Fn1("is_not_null", c("a"))>>), MFilter(i, <<Fn2("gt", c("b"), LitI(0))>>),
              MMutate(i, <<KV("w", Agg("count", c("a")))>>), MSummarize(i, <<KV("n", Agg("count", c("a"))), KV("s", Agg("sum", c("b")))>>),
              MSelect(i, <<c("a"), c("b")>>)>> ELSE <<>>)
        \o (IF has("rid") THEN <<MArrange(i, <<Ord(c("rid"), TRUE, "last")>>), MMutate(i, <<KV("r", Fn2("mod", c("rid"), LitI(3)))>>)>> ELSE <<>>)
        \o (IF has("g") /\ t.part = <<>> THEN <<MGroupBy(i, <<c("g")>>, FALSE)>> ELSE <<>>)
        \o (IF t.part = <<>> THEN <<MSlice(i, 5, 99), MSlice(i, 120, 0)>> ELSE <<>>)
        \o (IF has("p") THEN <<MFilter(i, <<c("p")>>)>> ELSE <<>>)

---------------------------------------------------------------------------
(* C10: a handful of expression OBJECTS (the replayer keeps one python object per distinct expression) used *)
(* under different grouping states, in mutate and in summarize, interleaved with other verbs                *)
MovesImm(h, kn) ==
    LET i  == Len(h)
        t  == h[i]
        a  == IF "a" \in VisNames(t) THEN <<ByName(t)["a"]>> ELSE <<>>
        b  == IF "b" \in VisNames(t) THEN <<ByName(t)["b"]>> ELSE <<>>
        g  == IF "g" \in VisNames(t) THEN <<ByName(t)["g"]>> ELSE <<>>
        p  == IF "p" \in VisNames(t) THEN <<ByName(t)["p"]>> ELSE <<>>
        pool == MapS(b, LAMBDA c : Agg("sum", Col(c)))
                \o MapS(a, LAMBDA c : Fn2("add", Agg("max", Col(c)), LitI(1)))
                \o (IF a # <<>> /\ b # <<>> THEN <<Win("row_number", <<>>, <<Ord(Col(b[1]), FALSE, "first"), Ord(Col(a[1]), TRUE, "last")>>),
                                                   AggF("count", Col(a[1]), Fn2("gt", Col(b[1]), LitI(0)))>> ELSE <<>>)
                \o (IF a # <<>> /\ b # <<>>       \* case expressions that share a prefix: when(..).then(..) extended in two ways
                    THEN <<Case1(Fn2("gt", Col(a[1]), LitI(0)), Col(b[1])),
                           Case2D(Fn2("gt", Col(a[1]), LitI(0)), Col(b[1]), Fn2("lt", Col(a[1]), LitI(0)), Fn1("neg", Col(b[1])), LitI(0)),
                           Case1D(Fn2("gt", Col(a[1]), LitI(0)), Col(b[1]), LitI(100))>> ELSE <<>>)
        wn == IF NameFree(t, "w") THEN "w" ELSE IF NameFree(t, "w2") THEN "w2" ELSE "w3"
        aggOnly == SelectSeq(pool, LAMBDA e : e.k = "agg" \/ (e.k = "fn" /\ e.op = "add"))
    IN  MapS(pool, LAMBDA e : MMutate(i, <<KV(wn, e)>>))
        \o (IF Summarized(t) THEN <<>> ELSE MapS(aggOnly, LAMBDA e : MSummarize(i, <<KV("s", e)>>)))
        \o MapS(g, LAMBDA c : MGroupBy(i, <<Col(c)>>, FALSE))
        \o MapS(p, LAMBDA c : MGroupBy(i, <<Col(c)>>, FALSE))
        \o (IF t.part # <<>> THEN <<MUngroup(i)>> \o MapS(SelectSeq(p, LAMBDA c : c \notin {t.part[q] : q \in DOMAIN t.part}),
                                                             LAMBDA c : MGroupBy(i, <<Col(c)>>, TRUE)) ELSE <<>>)
        \o MapS(b, LAMBDA c : MFilter(i, <<Fn2("gt", Col(c), LitI(0))>>))

---------------------------------------------------------------------------
(* C12: typed alphabet - every way a column of a new type comes into being *)
TyExprs(t) ==
    LET iv == Take(VisOfTy(t, "int"), 2)
        fv == Take(VisOfTy(t, "float"), 1)
        bv == Take(VisOfTy(t, "bool"), 1)
        a  == IF iv # <<>> THEN <<iv[1]>> ELSE <<>>
    IN  Flat(MapS(a, LAMBDA c :
            <<Fn2("truediv", Col(c), LitI(2)), Fn2("floordiv", Col(c), LitI(2)), Fn2("mod", Col(c), LitI(2)),
              Cast(Col(c), "float"), Fn2("eq", Col(c), LitI(2)), Fn1("is_null", Col(c)),
              Case1D(Fn2("gt", Col(c), LitI(0)), Col(c), Fn2("truediv", Col(c), LitI(4))),     \* int / float branches -> float
              Case1(Fn2("gt", Col(c), LitI(0)), Col(c)),                                        \* no otherwise: nullable int
              Case1D(Fn2("gt", Col(c), LitI(0)), LitN, Col(c)),
              Fn2("fill_null", Col(c), LitI(0)), FnN("coalesce", <<Col(c), LitI(1)>>),
              FnN("hmax", <<Col(c), LitI(0)>>), Fn1("abs", Col(c)), Fn1("neg", Col(c)),
              Agg("sum", Col(c)), Agg("mean", Col(c)), Agg("min", Col(c)), Agg("count", Col(c)), Len0,
              Win("rank", <<>>, <<Ord(Col(c), FALSE, "first")>>),
              Shift(Col(c), 1, <<>>, <<Ord(Col(c), FALSE, "first")>>),
              \* argument forms that change or must keep the type: decimals < 0, float bounds on an integer column, float fill value
              Fn2("round", Col(c), LitI(-1)), Fn2("round", Col(c), LitI(0)), Fn2("round", Col(c), LitI(1)),
              Fn3("clip", Col(c), LitF(1, 2), LitF(5, 2)), Fn3("clip", Col(c), LitI(0), LitI(2)),
              Fn2("fill_null", Col(c), LitF(1, 2)), FnN("hmax", <<Col(c), LitF(1, 2)>>), FnN("coalesce", <<Col(c), LitF(1, 2)>>),
              FnN("is_in", <<Col(c), LitI(1), LitF(1, 2)>>), Fn2("pow", Col(c), LitI(2)),
              \* functions declared on Float applied to an integer column (implicit conversion: the result is Float)
              Fn1("floor", Col(c)), Fn1("ceil", Col(c))>>))
        \* two integer columns of different width / signedness in one expression
        \o (IF Len(iv) >= 2 THEN <<Case1D(Fn2("gt", Col(iv[1]), LitI(0)), Col(iv[1]), Col(iv[2])), FnN("hmax", <<Col(iv[1]), Col(iv[2])>>),
                                    FnN("coalesce", <<Col(iv[1]), Col(iv[2])>>), Fn2("add", Col(iv[1]), Col(iv[2])),
                                    Fn2("fill_null", Col(iv[1]), Col(iv[2]))>> ELSE <<>>)
        \* an unsigned 64-bit column next to a signed one (no integer type holds both ranges)
        \o (IF "w" \in VisNames(t) /\ "g" \in VisNames(t)
            THEN LET w == Col(ByName(t)["w"]) gg == Col(ByName(t)["g"]) IN
                 <<Case1D(Fn2("gt", gg, LitI(0)), w, gg), FnN("hmax", <<w, gg>>), FnN("coalesce", <<w, gg>>), Fn2("add", w, gg),
                   Fn2("add", w, LitI(1)), Fn2("fill_null", w, LitI(0)), Agg("sum", w), Fn2("mod", w, LitI(2))>>
            ELSE <<>>)
        \o Flat(MapS(fv, LAMBDA c :
            <<Fn2("add", Col(c), LitI(1)), Fn2("mul", Col(c), Col(c)), Cast(Col(c), "int"), Fn1("floor", Col(c)), Fn1("ceil", Col(c)),
              Fn2("lt", Col(c), LitI(1)), Agg("sum", Col(c)), Agg("mean", Col(c)), Agg("max", Col(c)),
              Fn2("fill_null", Col(c), LitI(0)), Fn1("abs", Col(c))>>))
        \o Flat(MapS(bv, LAMBDA c :
            <<Cast(Col(c), "int"), Cast(Col(c), "float"), Fn2("add", Col(c), Col(c)), Agg("sum", Col(c)), Agg("any", Col(c)),
              Fn1("not", Col(c)), Fn2("and", Col(c), LitB(TRUE)), Fn2("fill_null", Col(c), LitB(FALSE)),
              \* compound boolean expressions stay boolean: the negation of a conjunction / disjunction, nested
              Fn1("not", Fn2("and", Col(c), Fn1("is_not_null", Col(c)))), Fn1("not", Fn2("or", Col(c), Fn1("is_null", Col(c)))),
              Fn2("xor", Col(c), Fn1("not", Fn2("or", Col(c), LitB(FALSE)))), Agg("all", Fn1("not", Fn2("and", Col(c), Col(c))))>>))
        \o Flat(MapS(a, LAMBDA c : MapS(fv, LAMBDA f : Fn2("add", Col(c), Col(f)))))
        \o Flat(MapS(a, LAMBDA c : Flat(MapS(bv, LAMBDA p :       \* window functions over a boolean column, both directions, with and without fill
              <<Shift(Col(p), -1, <<LitB(FALSE)>>, <<Ord(Col(c), FALSE, "first"), Ord(Col(p), FALSE, "last")>>),
                Shift(Col(p), 1, <<LitB(TRUE)>>, <<Ord(Col(c), FALSE, "first"), Ord(Col(p), FALSE, "last")>>),
                Shift(Col(p), -1, <<>>, <<Ord(Col(c), FALSE, "first"), Ord(Col(p), FALSE, "last")>>),
                Shift(Col(c), -1, <<LitI(0)>>, <<Ord(Col(c), FALSE, "first"), Ord(Col(p), FALSE, "last")>>)>>))))
        \o <<LitI(3), LitB(TRUE), LitN>>
        \* typed null literals: an all-null column of the stated type, and as operand
        \o <<LitTN("float"), LitTN("int"), LitTN("bool"), LitTN("str")>>
        \o MapS(a, LAMBDA c : Fn2("add", LitTN("float"), Col(c))) \o MapS(a, LAMBDA c : Fn2("fill_null", LitTN("int"), Col(c)))

MovesTy(h, kn) ==
    LET i  == Len(h)
        t  == h[i]
        te == TyExprs(t)
        iv == VisOfTy(t, "int")
        gp == SelectSeq(iv, LAMBDA c : t.nm[c] \in {"g", "a"})
        isAgg(e) == e.k = "agg"
    IN  MapS(te, LAMBDA e : MMutate(i, <<KV("x", e)>>))
        \o MapS(SelectSeq(te, isAgg), LAMBDA e : MSummarize(i, <<KV("s", e)>>))
        \o (IF t.part # <<>> /\ iv # <<>>           \* a grouping column next to an aggregate, through a cast / a case expression
            THEN LET gc == Col(t.part[1])
                     x  == Col(IF Len(iv) >= 2 /\ iv[1] = t.part[1] THEN iv[2] ELSE iv[1])
                 IN <<MSummarize(i, <<KV("s", Fn2("add", Agg("sum", x), Cast(gc, "float")))>>),
                      MSummarize(i, <<KV("s", Case1D(Fn2("gt", gc, LitI(1)), Agg("sum", x), LitI(0)))>>),
                      MSummarize(i, <<KV("s", Fn2("add", Agg("max", x), gc))>>)>>
            ELSE <<>>)
        \o MapS(Take(gp, 1), LAMBDA c : MGroupBy(i, <<Col(c)>>, FALSE))
        \o <<MCollect(i, TRUE)>>

---------------------------------------------------------------------------
(* C14: every rejection rule, in several syntactic positions, after a short history *)
BadExprs(t) ==      \* <<expression, context in which it is offered>>; context \in {"mutate", "filter", "summarize", "any"}
    LET iv == Take(VisOfTy(t, "int"), 2)
        bv == Take(VisOfTy(t, "bool"), 1)
        a  == IF iv # <<>> THEN <<iv[1]>> ELSE <<>>
        hid == Take(HidOfTy(t, "int"), 1)
    IN  \* type errors: int (op) bool, at top level, nested in arithmetic, in a case branch, in an aggregate, via C.
        Flat(MapS(a, LAMBDA c : Flat(MapS(bv, LAMBDA p :
            <<Fn2("add", Col(c), Col(p)),
              Fn2("mul", Fn2("lt", Col(c), Col(p)), LitI(2)),
              Case1D(Fn2("gt", Col(c), LitI(0)), Col(c), Col(p)),
              Case1(Col(c), LitI(1)),
              Agg("sum", Fn2("add", Col(c), Col(p))),
              AggF("sum", Col(c), Col(c)),
              Fn2("add", CN(t.nm[c]), CN(t.nm[p])),
              Fn2("and", Col(p), Col(c)),
              Fn1("not", Col(c)),
              Cast(Col(p), "str")>>))))
        \* function-kind errors: nested aggregate / window
        \o Flat(MapS(a, LAMBDA c :
            <<Agg("sum", Agg("max", Col(c))),
              Agg("sum", Win("row_number", <<>>, <<Ord(Col(c), FALSE, "first")>>)),
              Win("cum_sum", <<Agg("sum", Col(c))>>, <<Ord(Col(c), FALSE, "first")>>),
              Fn2("add", Agg("sum", Fn2("add", Agg("min", Col(c)), LitI(1))), LitI(1)),
              Win("rank", <<>>, <<Ord(Agg("sum", Col(c)), FALSE, "first")>>),
              AggP("sum", Col(c), <<Agg("max", Col(c))>>),
              Shift(Col(c), 1, <<>>, <<Ord(Win("row_number", <<>>, <<Ord(Col(c), FALSE, "first")>>), FALSE, "first")>>),
              WinP("row_number", <<>>, <<Ord(Col(c), FALSE, "first")>>, <<Fn2("add", Agg("min", Col(c)), LitI(1))>>)>>))
        \* unknown / dead references and markers outside arrange
        \o <<CN("zz"), Fn2("add", CN("zz"), LitI(1)), Col(999)>>
        \o Flat(MapS(a, LAMBDA c : <<Mark("descending", Col(c)), Fn2("add", Mark("nulls_last", Col(c)), LitI(1)),
                                     Agg("sum", Mark("descending", Col(c))), Cast(Mark("descending", Col(c)), "float"),
                                     Case1D(Fn2("gt", Col(c), LitI(0)), Mark("nulls_first", Col(c)), LitI(0))>>))

MovesErr(h, kn) ==
    LET i  == Len(h)
        t  == h[i]
        iv == VisOfTy(t, "int")
        bv == VisOfTy(t, "bool")
        be == BadExprs(t)
        a  == IF iv # <<>> THEN <<iv[1]>> ELSE <<>>
        hid == Take(HidOfTy(t, "int"), 1)
        nErr == Cardinality({q \in DOMAIN h : FALSE})
    IN  \* offending constructs
        MapS(be, LAMBDA e : MMutate(i, <<KV("x", e)>>))
        \o MapS(Take(be, 12), LAMBDA e : MFilter(i, <<Fn2("gt", e, LitI(0))>>))
        \o MapS(a, LAMBDA c : MFilter(i, <<Col(c)>>))                                           \* non-boolean predicate
        \* the offending argument in the 4th / 5th position of filter and arrange (the messages name the position)
        \o MapS(a, LAMBDA c : LET ok == Fn2("ge", Col(c), LitI(-100)) IN MFilter(i, <<ok, ok, ok, Fn2("add", Col(c), LitI(1))>>))
        \o MapS(a, LAMBDA c : LET ok == Fn2("ge", Col(c), LitI(-100)) IN MFilter(i, <<ok, ok, ok, ok, Fn2("gt", Agg("sum", Agg("sum", Col(c))), LitI(1))>>))
        \o Flat(MapS(a, LAMBDA c : MapS(Take(bv, 1), LAMBDA q :
              MArrange(i, <<Ord(Col(c), FALSE, "first"), Ord(Col(c), TRUE, "last"), Ord(Col(q), FALSE, "first"), Ord(Fn2("add", Col(c), Col(q)), FALSE, "first")>>))))
        \o MapS(a, LAMBDA c : MFilter(i, <<Fn2("add", Col(c), LitI(1))>>))
        \o <<MFilter(i, <<LitN>>)>>
        \o MapS(a, LAMBDA c : MFilter(i, <<Fn2("gt", Win("row_number", <<>>, <<Ord(Col(c), FALSE, "first")>>), LitI(1))>>))
        \o MapS(a, LAMBDA c : MFilter(i, <<Fn2("gt", Agg("sum", Col(c)), LitI(1))>>))
        \o MapS(a, LAMBDA c : MSummarize(i, <<KV("s", Col(c))>>))                                \* not aggregated
        \o MapS(a, LAMBDA c : MSummarize(i, <<KV("s", Fn2("add", Agg("sum", Col(c)), Col(c)))>>))
        \* the same below a case expression / a cast (check_summarize_col_expr must look through every node kind)
        \o MapS(a, LAMBDA c : MSummarize(i, <<KV("s", Case1D(Fn2("gt", Col(c), LitI(1)), Col(c), LitI(0)))>>))
        \o MapS(a, LAMBDA c : MSummarize(i, <<KV("s", Fn2("add", Agg("sum", Col(c)), Case1D(Fn2("gt", Col(c), LitI(1)), LitI(1), LitI(0))))>>))
        \o MapS(a, LAMBDA c : MSummarize(i, <<KV("s", Cast(Col(c), "float"))>>))
        \o MapS(a, LAMBDA c : MSummarize(i, <<KV("s", Fn2("add", Agg("max", Col(c)), Cast(Col(c), "float")))>>))
        \o MapS(a, LAMBDA c : MSummarize(i, <<KV("s", Case1D(Fn2("gt", Agg("max", Col(c)), LitI(1)), Win("row_number", <<>>, <<Ord(Col(c), FALSE, "first")>>), LitI(0)))>>))
        \o MapS(a, LAMBDA c : MSummarize(i, <<KV("s", Case1D(Fn2("gt", Agg("max", Col(c)), LitI(1)), Agg("min", Col(c)), LitI(0)))>>))   \* fine
        \o MapS(a, LAMBDA c : MSummarize(i, <<KV("s", Win("row_number", <<>>, <<Ord(Col(c), FALSE, "first")>>))>>))
        \o MapS(Take(be, 6), LAMBDA e : MSummarize(i, <<KV("s", Agg("max", e))>>))
        \o <<MSummarize(i, <<>>)>>
        \o <<MSelect(i, <<CN("zz")>>), MDrop(i, <<CN("zz")>>), MGroupBy(i, <<CN("zz")>>, FALSE)>>
        \o MapS(hid, LAMBDA c : MSelect(i, <<Col(c)>>))                                          \* re-select a hidden column
        \o MapS(hid, LAMBDA c : MGroupBy(i, <<Col(c)>>, FALSE))
        \o MapS(hid, LAMBDA c : MRename(i, <<[c |-> Col(c), n |-> "zz"]>>))                        \* rename a hidden column through its reference
        \o <<MSelect(i, <<Col(999)>>), MRename(i, <<[c |-> [k |-> "str", n |-> "zz"], n |-> "y"]>>)>>
        \o (IF Len(t.vis) >= 2 THEN <<MRename(i, <<[c |-> Col(t.vis[1]), n |-> t.nm[t.vis[2]]]>>)>> ELSE <<>>)   \* duplicate name
        \o MapS(a, LAMBDA c : MArrange(i, <<Ord(Fn2("add", Col(c), CN("zz")), FALSE, "first")>>))
        \o MapS(a, LAMBDA c : MArrange(i, <<Ord(Fn2("add", Mark("descending", Col(c)), LitI(1)), FALSE, "first")>>))      \* a marker below the top of the key
        \o (IF t.part # <<>> THEN <<MSlice(i, 2, 0)>> ELSE <<>>)                                  \* slice_head on a grouped table
        \o (IF t.part # <<>> THEN MapS(SelectSeq(Take(iv, 2), LAMBDA c : c \notin {t.part[q] : q \in DOMAIN t.part}),
                                       LAMBDA c : MSelect(i, <<Col(c)>>)) ELSE <<>>)           \* hide the grouping column
        \o MapS(a, LAMBDA c : MSummarize(i, <<KV("s", Agg("sum", Col(c)))>>))
        \* histories: a few well-formed verbs so that the rules are exercised after different states
        \o (IF Len(t.vis) >= 2 THEN MapS(a, LAMBDA c : MDrop(i, <<Col(c)>>)) ELSE <<>>)
        \o MapS(SelectSeq(iv, LAMBDA c : t.nm[c] = "g"), LAMBDA c : MGroupBy(i, <<Col(c)>>, FALSE))
        \o MapS(a, LAMBDA c : MMutate(i, <<KV(t.nm[c], Fn2("add", Col(c), LitI(1)))>>))
        \o MapS(a, LAMBDA c : MFilter(i, <<Fn2("gt", Col(c), LitI(0))>>))

=============================================================================
