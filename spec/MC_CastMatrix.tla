---------------------------- MODULE MC_CastMatrix ---------------------------
(***************************************************************************)
(* C17, acceptance: the table of ColExpr.cast's docstring over the type    *)
(* universe.  "ok" = documented (or an implicit conversion), "reject" =    *)
(* outside the table (DataTypeError when the expression is built),         *)
(* "unspec" = the documentation is silent (unsigned / decimal / generic    *)
(* targets, time, duration, lists).                                        *)
(***************************************************************************)
EXTENDS Resolve, TLC, Json

VARIABLES src, tgt, done
vars == <<src, tgt, done>>

U == {Universe[i] : i \in DOMAIN Universe}
Targets == {t \in U : ~IsConstT(t)}

SizedInt   == {"Int8", "Int16", "Int32", "Int64"}
SizedFloat == {"Float32", "Float64"}
Core == {"Int", "Float", "String", "Bool", "Date", "Datetime"}       \* families the documentation speaks about
CoreTargets == SizedInt \cup SizedFloat \cup {"String", "Bool", "Date", "Datetime"}

Documented(f, t) ==
    \/ f = "Float"    /\ t \in SizedInt                 \* extracts the integer part
    \/ f = "String"   /\ t \in SizedInt \cup SizedFloat \* parses the string
    \/ f = "Int"      /\ t = "String"
    \/ f = "Float"    /\ t = "String"
    \/ f = "Int"      /\ t \in SizedInt
    \/ f = "Float"    /\ t \in SizedFloat
    \/ f = "Int"      /\ t \in SizedFloat               \* implicit conversion int -> float
    \/ f = "Datetime" /\ t \in {"Date", "String"}
    \/ f = "Date"     /\ t \in {"String", "Datetime"}
    \/ f = "Bool"     /\ t \in SizedInt \cup SizedFloat \* bool to int gives 0/1

Outcome(s, t) ==
    LET f == Family[BaseOf[s]] IN
    IF Convertible(s, t) THEN "ok"
    ELSE IF f \in Core /\ BaseOf[s] \notin {"Enum['a','b']", "String(5)"} /\ t \in CoreTargets
         THEN (IF Documented(f, t) THEN "ok" ELSE "reject")
    ELSE "unspec"

Init == src \in U /\ tgt \in Targets /\ done = FALSE
Next == /\ ~done /\ PrintT(ToJson([src |-> src, tgt |-> tgt, o |-> Outcome(src, tgt)])) /\ done' = TRUE /\ UNCHANGED <<src, tgt>>

=============================================================================
