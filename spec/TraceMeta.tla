------------------------------- MODULE TraceMeta ----------------------------
(***************************************************************************)
(* Binding B: validation of recorded executions against the metadata plane.*)
(* The trace file holds a list of traces; each trace is the sequence of    *)
(* events logged at the return of every top-level verb call of one         *)
(* execution (a test of the repository's own suite, or a replayed          *)
(* behaviour).  TraceNext consumes event l, applies the CacheModel action  *)
(* named by the event to the logged argument names and compares every      *)
(* logged field of the result with it.  The verdict is total: `verdict`    *)
(* names the first failing clause and the step; every trace ends with one  *)
(* printed verdict line.                                                   *)
(***************************************************************************)
EXTENDS CacheModel, Json, IOUtils, TLCExt

Traces == JsonDeserialize(IOEnv.TRACE_FILE)

VARIABLES tid, l, tabs, verdict
vars == <<tid, l, tabs, verdict>>

Ev == Traces[tid][l]
Tab(i) == tabs[i]
Known(i) == i \in DOMAIN tabs

Put(i, M) == [x \in DOMAIN tabs \cup {i} |-> IF x = i THEN M ELSE tabs[x]]

Init == /\ tid \in DOMAIN Traces
        /\ l = 1
        /\ tabs = [x \in {} |-> 0]
        /\ verdict = "ok"

Pairs(m) == [i \in DOMAIN m |-> <<m[i][1], m[i][2]>>]

Expected(e) ==
    LET M == Tab(e.in) a == e.args IN
    CASE e.verb = "select"     -> CmSelect(M, a.cols)
      [] e.verb = "drop"       -> CmDrop(M, a.cols)
      [] e.verb = "rename"     -> CmRename(M, Pairs(a.map))
      [] e.verb = "mutate"     -> CmMutate(M, a.new)
      [] e.verb = "filter"     -> CmFilter(M)
      [] e.verb = "arrange"    -> CmArrange(M)
      [] e.verb = "slice_head" -> CmSliceHead(M, a.n)
      [] e.verb = "group_by"   -> CmGroupBy(M, a.cols, a.add)
      [] e.verb = "ungroup"    -> CmUngroup(M)
      [] e.verb = "summarize"  -> CmSummarize(M, a.new)
      [] e.verb = "alias"      -> CmAlias(M)
      [] e.verb = "collect"    -> CmCollect(M, a.keep)
      [] e.verb \in {"join", "inner_join", "left_join", "full_join", "cross_join"}
                               -> CmJoin(M, Tab(e.in2), a.ron, a.rname, a.suffix, a.how)
      [] e.verb = "union"      -> CmUnion(M, Tab(e.in2))
      [] OTHER -> M

(* Type plane (C12): the static type family of every visible column.  Frame rules: a verb changes the type of no column it does *)
(* not define; "?" = defined by the verb's expressions, taken from the log (TLC infers what the trace spec does not compute).      *)
DtOf(M, n) == IF \E i \in DOMAIN M.names : M.names[i] = n THEN M.dts[CHOOSE i \in DOMAIN M.names : M.names[i] = n] ELSE "?"
Lca(a, b) == IF a = b THEN a ELSE IF {a, b} = {"Int", "Float"} THEN "Float" ELSE IF a = "Null" THEN b ELSE IF b = "Null" THEN a ELSE "?"
DtsAfter(e, X) ==       \* X: the metadata the model expects after the verb (names), M: before
    LET M == Tab(e.in) a == e.args IN
    IF Len(M.dts) # Len(M.names) THEN [i \in DOMAIN X.names |-> "?"]
    ELSE
    CASE e.verb \in {"select", "drop", "filter", "arrange", "slice_head", "group_by", "ungroup", "alias", "collect"}
            -> [i \in DOMAIN X.names |-> DtOf(M, X.names[i])]
      [] e.verb = "rename" -> M.dts
      [] e.verb = "mutate" -> [i \in DOMAIN X.names |-> IF \E q \in DOMAIN a.new : a.new[q] = X.names[i] THEN "?" ELSE DtOf(M, X.names[i])]
      [] e.verb = "summarize" -> [i \in DOMAIN X.names |-> IF \E q \in DOMAIN a.new : a.new[q] = X.names[i] THEN "?" ELSE DtOf(M, X.names[i])]
      [] e.verb \in {"join", "inner_join", "left_join", "full_join", "cross_join"}
            -> IF Len(Tab(e.in2).dts) = Len(Tab(e.in2).names) /\ Len(X.names) = Len(M.names) + Len(Tab(e.in2).names)
               THEN M.dts \o Tab(e.in2).dts ELSE [i \in DOMAIN X.names |-> "?"]
      [] e.verb = "union" -> IF Len(Tab(e.in2).dts) = Len(Tab(e.in2).names)
                             THEN [i \in DOMAIN X.names |-> Lca(DtOf(M, X.names[i]), DtOf(Tab(e.in2), X.names[i]))]
                             ELSE [i \in DOMAIN X.names |-> "?"]
      [] OTHER -> [i \in DOMAIN X.names |-> "?"]
(* exported frame against the static types (C12): equal families; "only all-null columns are null-typed" - a Null column is   *)
(* accepted (the trace does not hold the data); on SQL back ends "up to the numeric family"                                     *)
ExportAgree(logged, want, backend) ==
    Len(logged) = Len(want) /\ \A i \in DOMAIN want :
        \/ want[i] = "?" \/ logged[i] = want[i] \/ logged[i] = "Null"
        \/ (backend # "polars" /\ {logged[i], want[i]} \subseteq {"Int", "Float", "Decimal"})
DtsAgree(logged, want) == Len(logged) = Len(want) /\ \A i \in DOMAIN want : want[i] = "?" \/ logged[i] = "?" \/ logged[i] = want[i]

Modelled == {"select", "drop", "rename", "mutate", "filter", "arrange", "slice_head", "group_by", "ungroup", "summarize",
             "alias", "collect", "join", "inner_join", "left_join", "full_join", "cross_join", "union"}

(* which logged field disagrees with the model ("" = none) *)
Clause(e, X) ==
    IF e.names # X.names THEN "names"
    ELSE IF ~e.ph /\ e.part # X.part THEN "group"      \* a hidden grouping column has no observable name
    \* the three fields that decide whether the next verb fits into the current SELECT (reset at a subquery marker)
    ELSE IF ~e.marker /\ e.sql[1] # X.lim THEN "sql-limit"
    ELSE IF ~e.marker /\ e.sql[3] # X.filt THEN "sql-filtered"
    ELSE IF ~e.marker /\ (e.sql[2] > 0) # (X.ngrp > 0) THEN "sql-grouped"
    \* collect() = export + re-import: judged like an export (an all-null / empty column comes back null-typed)
    ELSE IF e.names = X.names /\ e.verb = "collect" /\ ~ExportAgree(e.dts, DtsAfter(e, X), Tab(e.in).backend) THEN "dtype"
    ELSE IF e.names = X.names /\ e.verb # "collect" /\ ~DtsAgree(e.dts, DtsAfter(e, X)) THEN "dtype"
    ELSE ""

Step ==
    /\ verdict = "ok" /\ l >= 1 /\ l <= Len(Traces[tid])
    /\ LET e == Ev IN
       IF e.verb = "source"
       THEN /\ tabs' = Put(e.out, [dts |-> e.dts, backend |-> e.backend] @@ [CmSource(e.names) EXCEPT !.part = e.part, !.lim = e.sql[1], !.ngrp = e.sql[2], !.filt = e.sql[3]])
            /\ verdict' = "ok"
       ELSE IF ~Known(e.in) THEN tabs' = tabs /\ verdict' = "unknown-input"
       ELSE IF e.verb = "export_cols"
            THEN /\ tabs' = tabs
                 /\ verdict' = IF e.names # Tab(e.in).names THEN "export-columns"
                               ELSE IF e.dts # <<>> /\ ~ExportAgree(e.dts, Tab(e.in).dts, Tab(e.in).backend) THEN "export-dtype" ELSE "ok"
       ELSE IF e.err # "" \/ e.out = 0 \/ e.verb \notin Modelled
            THEN tabs' = tabs /\ verdict' = "ok"          \* error path / observation: the input stays as it is
       ELSE IF e.in2 # 0 /\ ~Known(e.in2) THEN tabs' = tabs /\ verdict' = "unknown-input"
       ELSE LET X == Expected(e)
                c == Clause(e, X)
            IN /\ verdict' = IF c = "" THEN "ok" ELSE c
               \* continue from the LOGGED state so that one divergence does not hide what follows
               \* a table collected from a SQL back end holds the frame that back end exported: it stays typed "up to the numeric family"
               /\ tabs' = Put(e.out, [dts |-> e.dts, backend |-> IF Tab(e.in).backend # "polars" THEN Tab(e.in).backend ELSE e.backend]
                                      @@ [X EXCEPT !.names = e.names, !.part = e.part])
    /\ l' = IF verdict' = "ok" THEN l + 1 ELSE l
    /\ tid' = tid

Finish ==
    /\ (verdict # "ok" \/ l > Len(Traces[tid]))
    /\ l # -1
    /\ PrintT(ToJson([tid |-> tid, verdict |-> verdict, step |-> l, len |-> Len(Traces[tid]),
                      expected |-> IF verdict \in {"names", "group"} /\ Known(Ev.in) THEN Expected(Ev).names
                                   ELSE IF verdict = "dtype" /\ Known(Ev.in) THEN DtsAfter(Ev, Expected(Ev))
                                   ELSE IF verdict = "export-dtype" /\ Known(Ev.in) THEN Tab(Ev.in).dts ELSE <<>>]))
    /\ l' = -1 /\ UNCHANGED <<tid, tabs, verdict>>

Next == Step \/ Finish

=============================================================================
