----------------------------- MODULE ValuesCore -----------------------------
(***************************************************************************)
(* The part of the value language without RECURSIVE definitions: integers, *)
(* three-valued logic, comparisons and the ordering used by arrange.  Kept  *)
(* separate so that Proofs.tla (TLAPS) can reason about the very           *)
(* definitions the model uses (tlapm does not accept RECURSIVE).           *)
(* See Values.tla for the description of NULL / UNDEF / ANY.               *)
(***************************************************************************)
EXTENDS Integers, Sequences, FiniteSets, TLC

CONSTANTS NULL, UNDEF, ANY     \* ANY: some non-null value the specification does not compute (transcendental functions): the two back ends are compared with each other

Bound == 1000000

IsN(v) == v = NULL
IsU(v) == v = UNDEF
IsAny(v) == v = ANY

AbsI(a) == IF a < 0 THEN -a ELSE a
SgnI(a) == IF a < 0 THEN -1 ELSE IF a = 0 THEN 0 ELSE 1
MinI(a, b) == IF a <= b THEN a ELSE b
MaxI(a, b) == IF a >= b THEN a ELSE b

ClampI(v) == IF v > Bound \/ v < -Bound THEN UNDEF ELSE v

(* strictness wrappers: UNDEF wins over NULL, NULL propagates *)
Strict1(a, r) == IF IsU(a) THEN UNDEF ELSE IF IsN(a) THEN NULL ELSE r
Strict2(a, b, r) == IF IsU(a) \/ IsU(b) THEN UNDEF ELSE IF IsN(a) \/ IsN(b) THEN NULL ELSE r

---------------------------------------------------------------------------
(* integer arithmetic *)
AddV(a, b) == IF IsU(a) \/ IsU(b) THEN UNDEF ELSE IF IsN(a) \/ IsN(b) THEN NULL ELSE ClampI(a + b)
SubV(a, b) == IF IsU(a) \/ IsU(b) THEN UNDEF ELSE IF IsN(a) \/ IsN(b) THEN NULL ELSE ClampI(a - b)
MulV(a, b) == IF IsU(a) \/ IsU(b) THEN UNDEF ELSE IF IsN(a) \/ IsN(b) THEN NULL
              ELSE IF AbsI(a) > 1000 \/ AbsI(b) > 1000 THEN UNDEF ELSE a * b
NegV(a)    == IF IsU(a) THEN UNDEF ELSE IF IsN(a) THEN NULL ELSE -a
AbsV(a)    == IF IsU(a) THEN UNDEF ELSE IF IsN(a) THEN NULL ELSE AbsI(a)

(* `//` truncates toward zero, `%` takes the sign of the dividend          *)
(* (ops/ops/arithmetic.py, docstrings of __floordiv__ and __mod__).        *)
TDivI(a, b) == LET q == AbsI(a) \div AbsI(b) IN IF (a < 0) # (b < 0) THEN -q ELSE q
TModI(a, b) == a - b * TDivI(a, b)
FloorDivV(a, b) == IF IsU(a) \/ IsU(b) THEN UNDEF ELSE IF IsN(a) \/ IsN(b) THEN NULL
                   ELSE IF b = 0 THEN UNDEF ELSE TDivI(a, b)
ModV(a, b) == IF IsU(a) \/ IsU(b) THEN UNDEF ELSE IF IsN(a) \/ IsN(b) THEN NULL
              ELSE IF b = 0 THEN UNDEF ELSE TModI(a, b)

(* LIMIT / OFFSET composition without a subquery (backend/sql.py, SliceHead branch, as fixed): a SELECT that already has  *)
(* LIMIT lim OFFSET off receives slice_head(n, offset = k); lim = -1: no LIMIT yet                                         *)
LimitCompose(lim, off, n, k) == IF lim = -1 THEN <<n, k>> ELSE <<MinI(MaxI(lim - k, 0), n), off + k>>

(* comparison of exact rationals [n, d] (Values.tla), needed by the order relation *)
RatLt(a, b) == a.n * b.d < b.n * a.d
RatEq(a, b) == a.n = b.n /\ a.d = b.d

---------------------------------------------------------------------------
(* three-valued logic (ops/ops/logical.py truth tables) *)
And3(a, b) == IF IsU(a) \/ IsU(b) THEN UNDEF
              ELSE IF a = FALSE \/ b = FALSE THEN FALSE
              ELSE IF IsN(a) \/ IsN(b) THEN NULL ELSE TRUE
Or3(a, b)  == IF IsU(a) \/ IsU(b) THEN UNDEF
              ELSE IF a = TRUE \/ b = TRUE THEN TRUE
              ELSE IF IsN(a) \/ IsN(b) THEN NULL ELSE FALSE
Xor3(a, b) == IF IsU(a) \/ IsU(b) THEN UNDEF ELSE IF IsN(a) \/ IsN(b) THEN NULL ELSE a # b
Not3(a)    == IF IsU(a) THEN UNDEF ELSE IF IsN(a) THEN NULL ELSE ~a
IsTrue(v)  == v = TRUE

---------------------------------------------------------------------------
(* comparisons: null-propagating.  `ty` selects the order relation.        *)
LtRaw(ty, a, b) == CASE ty = "int"   -> a < b
                     [] ty = "bool"  -> (a = FALSE /\ b = TRUE)
                     [] ty = "float" -> RatLt(a, b)
                     [] OTHER        -> FALSE
EqRaw(ty, a, b) == IF ty = "float" THEN RatEq(a, b) ELSE a = b

EqV(ty, a, b) == Strict2(a, b, EqRaw(ty, a, b))
NeV(ty, a, b) == Strict2(a, b, ~EqRaw(ty, a, b))
LtV(ty, a, b) == Strict2(a, b, LtRaw(ty, a, b))
LeV(ty, a, b) == Strict2(a, b, LtRaw(ty, a, b) \/ EqRaw(ty, a, b))
GtV(ty, a, b) == Strict2(a, b, LtRaw(ty, b, a))
GeV(ty, a, b) == Strict2(a, b, LtRaw(ty, b, a) \/ EqRaw(ty, a, b))

(* equality of two values as *grouping keys / union rows*: nulls are equal *)
SameKey(ty, a, b) == IF IsN(a) \/ IsN(b) THEN IsN(a) /\ IsN(b) ELSE EqRaw(ty, a, b)

(***************************************************************************)
(* Ordering used by arrange / arrange= :  key spec o = [desc, nl] with     *)
(* nl \in {"first", "last"}.  `nulls_first` / `nulls_last` place nulls     *)
(* regardless of `descending` (ops/ops/markers.py).                        *)
(***************************************************************************)
Before1(ty, a, b, desc, nl) ==
    IF IsN(a) THEN (~IsN(b) /\ nl = "first")
    ELSE IF IsN(b) THEN nl = "last"
    ELSE IF desc THEN LtRaw(ty, b, a) ELSE LtRaw(ty, a, b)

=============================================================================
