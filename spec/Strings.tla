------------------------------- MODULE Strings ------------------------------
(***************************************************************************)
(* Text as sequences of code points (so that every SQL / LIKE / regex      *)
(* metacharacter, the newline and non-ASCII letters are ordinary data in   *)
(* the model), and the documented textual casts.                           *)
(***************************************************************************)
EXTENDS Values

StartsWith(s, p) == Len(p) <= Len(s) /\ SubSeq(s, 1, Len(p)) = p
EndsWith(s, p)   == Len(p) <= Len(s) /\ SubSeq(s, Len(s) - Len(p) + 1, Len(s)) = p
ContainsStr(s, p) == \E i \in 1..(Len(s) - Len(p) + 1) : SubSeq(s, i, i + Len(p) - 1) = p

RECURSIVE ReplaceAllStr(_, _, _)
ReplaceAllStr(s, p, r) ==        \* left-to-right, non-overlapping occurrences of the (literal) pattern p
    IF Len(s) < Len(p) \/ s = <<>> THEN s
    ELSE IF StartsWith(s, p) THEN r \o ReplaceAllStr(SubSeq(s, Len(p) + 1, Len(s)), p, r)
    ELSE <<s[1]>> \o ReplaceAllStr(Tail(s), p, r)

(* ASCII case mapping; any other letter has no backend-independent case mapping (SQLite maps ASCII only) *)
IsAsciiOrCaseless(c) == c < 128
UpperC(c) == IF c >= 97 /\ c <= 122 THEN c - 32 ELSE c
LowerC(c) == IF c >= 65 /\ c <= 90 THEN c + 32 ELSE c
UpperStr(s) == IF \A i \in DOMAIN s : IsAsciiOrCaseless(s[i]) THEN [i \in DOMAIN s |-> UpperC(s[i])] ELSE UNDEF
LowerStr(s) == IF \A i \in DOMAIN s : IsAsciiOrCaseless(s[i]) THEN [i \in DOMAIN s |-> LowerC(s[i])] ELSE UNDEF
(* strip: only blanks are stripped identically everywhere (SQLite TRIM removes spaces, polars all white space) *)
RECURSIVE StripL(_)
StripL(s) == IF s # <<>> /\ s[1] = 32 THEN StripL(Tail(s)) ELSE s
RECURSIVE StripR(_)
StripR(s) == IF s # <<>> /\ s[Len(s)] = 32 THEN StripR(SubSeq(s, 1, Len(s) - 1)) ELSE s
IsOtherSpace(c) == c \in {9, 10, 11, 12, 13}
StripStr(s) == LET r == StripR(StripL(s)) IN
               IF r # <<>> /\ (IsOtherSpace(r[1]) \/ IsOtherSpace(r[Len(r)])) THEN UNDEF ELSE r
(* slice(offset, n): 0-based, non-negative arguments only *)
SliceStr(s, off, n) == IF off < 0 \/ n < 0 THEN UNDEF ELSE SubSeq(s, off + 1, MinI(off + n, Len(s)))

(* decimal text of integers *)
RECURSIVE NatToStr(_)
NatToStr(n) == IF n < 10 THEN <<48 + n>> ELSE NatToStr(n \div 10) \o <<48 + (n % 10)>>
IntToStr(n) == IF n < 0 THEN <<45>> \o NatToStr(-n) ELSE NatToStr(n)

IsDigit(c) == c >= 48 /\ c <= 57
RECURSIVE DigitsVal(_, _)
DigitsVal(s, acc) == IF s = <<>> THEN acc ELSE DigitsVal(Tail(s), acc * 10 + (s[1] - 48))
AllDigits(s) == s # <<>> /\ \A i \in DOMAIN s : IsDigit(s[i])
(* "Parses the string as an integer": a plain numeral with an optional sign; anything else has no   *)
(* backend-independent value (strict casts raise, SQLite yields 0)                                  *)
ParseInt(s) ==
    IF s = <<>> THEN UNDEF
    ELSE IF s[1] \in {43, 45} THEN (IF AllDigits(Tail(s)) /\ Len(s) <= 8 THEN (IF s[1] = 45 THEN -DigitsVal(Tail(s), 0) ELSE DigitsVal(Tail(s), 0)) ELSE UNDEF)
    ELSE IF AllDigits(s) /\ Len(s) <= 7 THEN DigitsVal(s, 0) ELSE UNDEF

(* decimal text of an exact binary fraction: "2.0", "-0.25", "12.5" *)
RECURSIVE FracDigits(_, _)
FracDigits(num, den) ==       \* digits of num/den, 0 <= num < den, den a power of two
    IF num = 0 THEN <<>> ELSE <<48 + ((num * 10) \div den)>> \o FracDigits((num * 10) % den, den)
IsPow2(d) == d \in {1, 2, 4, 8, 16, 32, 64}
RatToStr(r) ==
    IF ~IsPow2(r.d) THEN UNDEF
    ELSE LET a  == AbsI(r.n)
             ip == a \div r.d
             fr == FracDigits(a % r.d, r.d)
         IN (IF r.n < 0 THEN <<45>> ELSE <<>>) \o NatToStr(ip) \o <<46>> \o (IF fr = <<>> THEN <<48>> ELSE fr)

(* "Parses the string as a floating point number": [sign] digits [ "." digits ] *)
SplitAt(s, c) == LET I == {i \in DOMAIN s : s[i] = c} IN IF I = {} THEN 0 ELSE CHOOSE i \in I : \A j \in I : i <= j
Pow10(k) == CASE k = 0 -> 1 [] k = 1 -> 10 [] k = 2 -> 100 [] k = 3 -> 1000 [] k = 4 -> 10000 [] OTHER -> 100000
ParseUnsignedRat(s) ==
    LET dot == SplitAt(s, 46) IN
    IF dot = 0 THEN (IF AllDigits(s) /\ Len(s) <= 6 THEN Rat(DigitsVal(s, 0), 1) ELSE UNDEF)
    ELSE LET ip == SubSeq(s, 1, dot - 1)
             fp == SubSeq(s, dot + 1, Len(s))
         IN IF AllDigits(ip) /\ AllDigits(fp) /\ Len(ip) <= 5 /\ Len(fp) <= 4
            THEN Rat(DigitsVal(ip, 0) * Pow10(Len(fp)) + DigitsVal(fp, 0), Pow10(Len(fp))) ELSE UNDEF
ParseRat(s) ==
    IF s = <<>> THEN UNDEF
    ELSE IF s[1] = 45 THEN LET u == ParseUnsignedRat(Tail(s)) IN IF IsU(u) THEN UNDEF ELSE [n |-> -u.n, d |-> u.d]
    ELSE IF s[1] = 43 THEN ParseUnsignedRat(Tail(s))
    ELSE ParseUnsignedRat(s)

(* dates / datetimes are records [y, m, d] / [y, m, d, H, M, S, us] *)
Pad(n, w) == LET t == NatToStr(n) IN [i \in 1..(w - Len(t)) |-> 48] \o t
DateToStr(v) == Pad(v.y, 4) \o <<45>> \o Pad(v.m, 2) \o <<45>> \o Pad(v.d, 2)
DatetimeToStr(v) == DateToStr(v) \o <<32>> \o Pad(v.H, 2) \o <<58>> \o Pad(v.M, 2) \o <<58>> \o Pad(v.S, 2) \o <<46>> \o Pad(v.us, 6)
DatetimeToDate(v) == [y |-> v.y, m |-> v.m, d |-> v.d]

(* durations: the difference of two dates / datetimes as <days, seconds, microseconds> with 0 <= seconds < 86400 and           *)
(* 0 <= microseconds < 10^6 (python's timedelta normal form; the day count may be negative)                                  *)
DaysFromCivil(y, m, d) ==      \* days since 1970-01-01 (proleptic Gregorian calendar, y >= 0)
    LET yy  == IF m <= 2 THEN y - 1 ELSE y
        era == yy \div 400
        yoe == yy - era * 400
        mp  == IF m > 2 THEN m - 3 ELSE m + 9
        doy == (153 * mp + 2) \div 5 + d - 1
        doe == yoe * 365 + yoe \div 4 - yoe \div 100 + doy
    IN era * 146097 + doe - 719468
DurNorm(dd, ss, uu) ==
    LET s1 == IF uu < 0 THEN ss - 1 ELSE ss
        u1 == IF uu < 0 THEN uu + 1000000 ELSE uu
        d1 == IF s1 < 0 THEN dd - 1 ELSE dd
        s2 == IF s1 < 0 THEN s1 + 86400 ELSE s1
    IN [dd |-> d1, ss |-> s2, us |-> u1]
DateDiff(a, b) == DurNorm(DaysFromCivil(a.y, a.m, a.d) - DaysFromCivil(b.y, b.m, b.d), 0, 0)
DatetimeDiff(a, b) == DurNorm(DaysFromCivil(a.y, a.m, a.d) - DaysFromCivil(b.y, b.m, b.d),
                              (a.H * 3600 + a.M * 60 + a.S) - (b.H * 3600 + b.M * 60 + b.S), a.us - b.us)
DateToDatetime(v) == [y |-> v.y, m |-> v.m, d |-> v.d, H |-> 0, M |-> 0, S |-> 0, us |-> 0]

=============================================================================
