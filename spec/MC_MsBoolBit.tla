---------------------------- MODULE MC_MsBoolBit ----------------------------
(***************************************************************************)
(* SQL Server has no boolean TYPE: a predicate (a = b, x AND y, x IS NULL) *)
(* is not a value, and a BIT value is not a predicate.  Before compiling,  *)
(* the MSSQL back end rewrites every expression tree (backend/mssql.py     *)
(* convert_bool_bit): a value used as predicate becomes `v = 1`, a         *)
(* predicate used as value becomes CASE WHEN p THEN 1 WHEN NOT p THEN 0.   *)
(*                                                                         *)
(* This module                                                             *)
(*  - transcribes the rewrite (Conv) over a small expression language      *)
(*    (boolean / integer columns and literals, the operator classes the    *)
(*    rewrite distinguishes, case, cast),                                  *)
(*  - states T-SQL's typing discipline as a judgement Kind on rewritten    *)
(*    trees ("pred" / "val" / "bad"),                                      *)
(*  - and lets TLC check, for EVERY expression up to the depth bound and   *)
(*    both requested result kinds, that the rewrite is well typed:         *)
(*        Kind(Conv(e, want)) = KindWanted(want)          (WellTyped)      *)
(*    and that it is the identity on expressions without booleans.         *)
(* TLC emits every expression with the tree the transcription produces;    *)
(* the harness builds the same expression from the real node classes,      *)
(* calls the real convert_bool_bit, matches the returned tree against the  *)
(* emitted one node by node (drift = the transcription is out of date) and *)
(* compiles mutate(x = e) / filter(e) on the SQL Server dialect.  No SQL   *)
(* Server is available: the typing judgement stands in for its parser.    *)
(***************************************************************************)
EXTENDS TLC, Json, IOUtils, Sequences, Integers, FiniteSets

CONSTANTS Mode, Depth

VARIABLE x

(* surface expressions: [k, ty, op, a]; ty \in {"bool", "int"} *)
Col(t) == [k |-> "col", ty |-> t, op |-> "", a |-> <<>>]
Lit(t) == [k |-> "lit", ty |-> t, op |-> "", a |-> <<>>]
Fn(o, t, as) == [k |-> "fn", ty |-> t, op |-> o, a |-> as]
Case(c, v, d) == [k |-> "case", ty |-> v.ty, op |-> "", a |-> <<c, v, d>>]      \* when(c).then(v).otherwise(d)
Cast(e, t) == [k |-> "cast", ty |-> t, op |-> "", a |-> <<e>>]

Leaves == {Col("bool"), Col("int"), Lit("bool"), Lit("int")}

(* operator classes of the rewrite: arguments wanted as predicates or as values, result a predicate or a value *)
PredArgOps == {"and", "or", "not", "hany", "hall"}                   \* boolean connectives: arguments are predicates
PredResOps == PredArgOps \cup {"xor", "eq", "ne", "gt", "is_null", "is_in"}   \* comparisons, tests: the result is a predicate
(* everything else (fill_null, coalesce, add, any, max, shift, ...) takes values and returns a value *)

Bools(S) == {e \in S : e.ty = "bool"}
Ints(S) == {e \in S : e.ty = "int"}
Step(S) ==
    S \cup {Fn(o, "bool", <<p, q>>) : o \in {"and", "or", "xor", "hany", "eq", "fill_null"}, p \in Bools(S), q \in Bools(S)}
      \cup {Fn("not", "bool", <<p>>) : p \in Bools(S)}
      \cup {Fn("is_null", "bool", <<p>>) : p \in S} \cup {Fn("any", "bool", <<p>>) : p \in Bools(S)}
      \cup {Fn(o, "bool", <<p, q>>) : o \in {"eq", "gt", "is_in"}, p \in Ints(S), q \in Ints(S)}
      \cup {Fn("add", "int", <<p, q>>) : p \in Ints(S), q \in Ints(S)}
      \cup {Fn("sum", "int", <<p>>) : p \in Bools(S)}
      \cup UNION {{Case(c, v, d) : c \in Bools(S), d \in {z \in Leaves : z.ty = v.ty}} : v \in Leaves}
      \cup {Cast(p, "int") : p \in Bools(S)}         \* (the only cast TO Bool the type checker accepts is Bool -> Bool; the rewrite leaves a
                                                     \*  cast unwrapped, so `filter(b.cast(Bool()))` would be ill typed - TLC reports it when added here)
RECURSIVE Exprs(_)
Exprs(d) == IF d = 0 THEN Leaves ELSE Step(Exprs(d - 1))

(* ---- the rewrite, transcribed from convert_bool_bit ---- *)
EqTrue(e) == [k |-> "eqtrue", ty |-> "bool", op |-> "", a |-> <<e>>]            \* ColFn(equal, e, True)
CaseBit(e) == [k |-> "casebit", ty |-> "bool", op |-> "", a |-> <<e>>]          \* CASE WHEN e THEN True WHEN ~e THEN False

RECURSIVE Conv(_, _)
Conv(e, want) ==
    LET r == CASE e.k \in {"col", "lit"} -> [t |-> e, ret |-> "bit"]
               [] e.k = "fn" ->
                    LET argw == IF e.op \in PredArgOps THEN "bool" ELSE "bit" IN
                    [t |-> [e EXCEPT !.a = [i \in DOMAIN e.a |-> Conv(e.a[i], argw)]],
                     ret |-> IF e.op \in PredResOps THEN "bool" ELSE "bit"]
               [] e.k = "case" -> [t |-> [e EXCEPT !.a = <<Conv(e.a[1], "bool"), Conv(e.a[2], "bit"), Conv(e.a[3], "bit")>>], ret |-> "bit"]
               [] e.k = "cast" -> [t |-> [e EXCEPT !.a = <<Conv(e.a[1], "bit")>>], ret |-> "cast"]
    IN  IF r.ret = "cast" THEN r.t             \* a cast returns early: no wrapper is ever put around it
        ELSE IF e.ty # "bool" THEN r.t
        ELSE IF want = "bool" /\ r.ret = "bit" THEN EqTrue(r.t)
        ELSE IF want = "bit" /\ r.ret = "bool" THEN CaseBit(r.t)
        ELSE r.t

(* ---- T-SQL typing of a rewritten tree ---- *)
RECURSIVE Kind(_)
Kind(e) ==
    CASE e.k \in {"col", "lit"} -> "val"
      [] e.k = "eqtrue" -> IF Kind(e.a[1]) = "val" THEN "pred" ELSE "bad"
      [] e.k = "casebit" -> IF Kind(e.a[1]) = "pred" THEN "val" ELSE "bad"
      [] e.k = "cast" -> IF Kind(e.a[1]) = "val" THEN "val" ELSE "bad"
      [] e.k = "case" -> IF Kind(e.a[1]) = "pred" /\ Kind(e.a[2]) = "val" /\ Kind(e.a[3]) = "val" THEN "val" ELSE "bad"
      [] e.k = "fn" ->
            LET needs == IF e.op \in PredArgOps THEN "pred" ELSE "val" IN
            IF \E i \in DOMAIN e.a : Kind(e.a[i]) # needs THEN "bad"
            ELSE IF e.op \in PredResOps THEN "pred" ELSE "val"
KindWanted(want) == IF want = "bool" THEN "pred" ELSE "val"

(* a boolean expression comes out in the requested kind; a non-boolean expression is a value whatever is requested *)
WellTypedAt(e, want) == Kind(Conv(e, want)) = (IF e.ty = "bool" THEN KindWanted(want) ELSE "val")
RECURSIVE HasBool(_)
HasBool(e) == e.ty = "bool" \/ \E i \in DOMAIN e.a : HasBool(e.a[i])
IdentityWithoutBool(e) == ~HasBool(e) => Conv(e, "bit") = e /\ Conv(e, "bool") = e

All == Exprs(Depth)
ASSUME Mode = "gen" => \A e \in All : \A w \in {"bool", "bit"} : WellTypedAt(e, w) /\ IdentityWithoutBool(e)
ASSUME Mode = "gen" => \A e \in All : \A w \in {"bool", "bit"} : PrintT(ToJson([e |-> e, want |-> w, conv |-> Conv(e, w)]))

Init == x = 0
Next == FALSE /\ x' = x
=============================================================================
