---------------------------- MODULE MC_CacheGraph ---------------------------
(***************************************************************************)
(* The COMPLETE reachable graph of the metadata plane (CacheModel.tla)     *)
(* over a small universe of names: visible names in order, grouping,       *)
(* limit / grouped / filtered / summarized.  The universe is finite, so    *)
(* TLC reaches the fixed point: the invariants below hold for verb         *)
(* sequences of ANY length, and every transition of the graph is printed   *)
(* once.  The harness walks the graph from the source table, keeps one     *)
(* real table per abstract state and executes every transition on it       *)
(* ("one implementation test per transition of the specification"): the    *)
(* names, the grouping and the three SQL fields of the result must be the  *)
(* target state - which also shows that the abstraction is sound (the      *)
(* code's answer does not depend on anything the abstract state forgets).  *)
(* Guards = the verbs' documented preconditions; grouping columns stay     *)
(* visible (the hidden-grouping corner is known finding F14).              *)
(***************************************************************************)
EXTENDS CacheModel, Json

CONSTANTS Src, NewNames        \* Src: the source table's column names (sequence); NewNames: names mutate / summarize / rename may create

VARIABLE M
Norm(X) == [X EXCEPT !.ngrp = IF @ > 0 THEN 1 ELSE 0]      \* TraceMeta observes "grouped SELECT" only as a flag

Univ == SeqSet(Src) \cup NewNames
SubSeqs(s) == {SelectSeq(s, LAMBDA x : x \in S) : S \in SUBSET SeqSet(s)}
Rev(s) == [i \in DOMAIN s |-> s[Len(s) + 1 - i]]
Distinct(s) == \A i, j \in DOMAIN s : i # j => s[i] # s[j]
KeepsGroups(ns) == SeqSet(M.part) \subseteq SeqSet(ns)

Emit(verb, args, T) == PrintT(ToJson([s |-> M, verb |-> verb, args |-> args, t |-> T]))
Do(verb, args, T) == /\ Emit(verb, args, Norm(T)) /\ M' = Norm(T)

Init == M = CmSource(Src)

Select == \E base \in SubSeqs(M.names) : \E ns \in {base, Rev(base)} :
              ns # <<>> /\ KeepsGroups(ns) /\ Do("select", ns, CmSelect(M, ns))
Drop == \E d \in SubSeqs(M.names) : d # <<>> /\ d # M.names /\ SeqSet(d) \cap SeqSet(M.part) = {}
                                   /\ Do("drop", d, CmDrop(M, d))
Rename1 == \E o \in SeqSet(M.names), n \in Univ :
              LET mp == <<<<o, n>>>> X == CmRename(M, mp) IN Distinct(X.names) /\ o # n /\ Do("rename", mp, X)
Swap == \E o, p \in SeqSet(M.names) : o # p /\ Do("rename", <<<<o, p>>, <<p, o>>>>, CmRename(M, <<<<o, p>>, <<p, o>>>>))
Mutate == \E n \in Univ : n \notin SeqSet(M.part) /\ Do("mutate", <<n>>, CmMutate(M, <<n>>))
Mutate2 == \E n \in NewNames, o \in SeqSet(M.names) : n # o /\ o \notin SeqSet(M.part) /\ n \notin SeqSet(M.part)
                                                     /\ Do("mutate", <<n, o>>, CmMutate(M, <<n, o>>))
Filter == Do("filter", <<>>, CmFilter(M))
Arrange == Do("arrange", <<>>, CmArrange(M))
Slice == M.part = <<>> /\ Do("slice_head", <<>>, CmSliceHead(M, 3))
GroupBy == \E g \in SeqSet(M.names), add \in BOOLEAN :
              (add => (M.part # <<>> /\ Len(M.part) < 2 /\ g \notin SeqSet(M.part)))
              /\ Do(IF add THEN "group_by_add" ELSE "group_by", <<g>>, CmGroupBy(M, <<g>>, add))
Ungroup == M.part # <<>> /\ Do("ungroup", <<>>, CmUngroup(M))
Summarize == \E n \in NewNames : Do("summarize", <<n>>, CmSummarize(M, <<n>>))
AliasKeep == Do("alias", <<>>, CmAlias(M))

Next == Select \/ Drop \/ Rename1 \/ Swap \/ Mutate \/ Mutate2 \/ Filter \/ Arrange \/ Slice \/ GroupBy \/ Ungroup \/ Summarize \/ AliasKeep

(* invariants of the metadata plane, for verb sequences of any length *)
NamesDistinct == Distinct(M.names)
NonEmpty == M.names # <<>>
GroupsVisible == SeqSet(M.part) \subseteq SeqSet(M.names) /\ Distinct(M.part)
SummarizedKeepsFlag == [][M.summ => M'.summ]_M            \* only a subquery marker / join resets it (not in this alphabet)
FilteredKeepsFlag == [][M.filt => M'.filt]_M
=============================================================================
